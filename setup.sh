#!/bin/sh
# Offline setup: nothing to build; parse every specification so that a broken module is found here.
set -e
cd "$(dirname "$0")"
command -v java >/dev/null
mkdir -p evidence replays
/venv/bin/python - <<'PY'
import glob, os, sys
sys.path.insert(0, os.getcwd())
from concurrent.futures import ThreadPoolExecutor
from kv import tlc
mods = sorted(os.path.basename(p)[:-4] for p in glob.glob("spec/*.tla"))
def one(m):
    ok, out = tlc.sany(m)
    return m, ok, out
bad = 0
with ThreadPoolExecutor(8) as ex:
    for m, ok, out in ex.map(one, mods):
        if not ok:
            bad += 1
            print("SANY FAILED:", m); print(out[-1500:])
print("parsed %d modules, %d failed" % (len(mods), bad))
sys.exit(1 if bad else 0)
PY
