---- MODULE MC_Feedback ----
EXTENDS Feedback
FairSpec == Spec /\ WF_vars(Next)
====
