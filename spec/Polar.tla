--------------------------------- MODULE Polar ---------------------------------
(***************************************************************************)
(* Polar codes as kaira presents them: Arikan transform F^{(x)m},           *)
(* F = [[1,0],[1,1]], information set from a reliability sequence, frozen   *)
(* value, optional bit-reversal interleaving, and the textbook successive-  *)
(* cancellation (SC) decision rule in the min-sum regime (integer LLRs) and *)
(* the sum-product regime (LLRs on the ln 2 lattice: likelihood ratios are  *)
(* exact rationals).  Bit vectors are sequences of 0/1 (index 1 = position  *)
(* 0).                                                                      *)
(***************************************************************************)
EXTENDS Naturals, Integers, Sequences, FiniteSets, Bitwise, TLC

X2(a, b) == (a + b) % 2
XorSeq(a, b) == [i \in 1..Len(a) |-> X2(a[i], b[i])]
FirstHalf(s) == SubSeq(s, 1, Len(s) \div 2)
SecondHalf(s) == SubSeq(s, Len(s) \div 2 + 1, Len(s))
Evens(s) == [i \in 1..(Len(s) \div 2) |-> s[2 * i - 1]]      \* positions 0, 2, 4, ...
Odds(s) == [i \in 1..(Len(s) \div 2) |-> s[2 * i]]
Interleave(a, b) == [i \in 1..(2 * Len(a)) |-> IF i % 2 = 1 THEN a[(i + 1) \div 2] ELSE b[i \div 2]]

\* u . F^{(x)m} by the butterfly recursion: (u1, u2) -> (T(u1) + T(u2), T(u2))
RECURSIVE Transform(_)
Transform(u) == IF Len(u) = 1 THEN u
                ELSE LET a == Transform(FirstHalf(u))
                         b == Transform(SecondHalf(u))
                     IN XorSeq(a, b) \o b
\* the same map by the subset rule: x_j = XOR of u_i over all i whose binary expansion contains that of j
SubsetRule(u) == [j \in 1..Len(u) |-> LET S == { i \in 1..Len(u) : ((i - 1) & (j - 1)) = (j - 1) /\ u[i] = 1 } IN Cardinality(S) % 2]
\* bit reversal of the position index (m bits)
RECURSIVE Rev(_, _)
Rev(x, m) == IF m = 0 THEN 0 ELSE (x % 2) * (2 ^ (m - 1)) + Rev(x \div 2, m - 1)
RECURSIVE Log2(_)
Log2(n) == IF n <= 1 THEN 0 ELSE 1 + Log2(n \div 2)
BitReverse(x) == [j \in 1..Len(x) |-> x[Rev(j - 1, Log2(Len(x))) + 1]]
Encode(u, interleave) == IF interleave THEN BitReverse(Transform(u)) ELSE Transform(u)

\* information positions (as a 0/1 mask): all positions except the N-k least reliable of the ranking restricted to < N
RECURSIVE FirstBelow(_, _, _, _)
FirstBelow(rank, i, N, cnt) == IF cnt = 0 \/ i > Len(rank) THEN {}
                               ELSE IF rank[i] < N THEN {rank[i]} \cup FirstBelow(rank, i + 1, N, cnt - 1)
                               ELSE FirstBelow(rank, i + 1, N, cnt)
InfoMask(rank, N, k) == LET Fz == FirstBelow(rank, 1, N, N - k) IN [j \in 1..N |-> IF (j - 1) \in Fz THEN 0 ELSE 1]
\* place the k message bits on the information positions in increasing order, the frozen value elsewhere
Place(msg, mask, fz) == [j \in 1..Len(mask) |-> IF mask[j] = 1 THEN msg[Cardinality({ i \in 1..j : mask[i] = 1 })] ELSE fz]
Extract(u, mask) == LET idx == { j \in 1..Len(mask) : mask[j] = 1 } IN
                    [t \in 1..Cardinality(idx) |-> u[CHOOSE j \in idx : Cardinality({ i \in idx : i <= j }) = t]]

\* ------------------------------------------------------------------ SC, min-sum regime (integers)
Sgn(x) == IF x > 0 THEN 1 ELSE IF x < 0 THEN -1 ELSE 0
Abs(x) == IF x < 0 THEN -x ELSE x
MinI(a, b) == IF a < b THEN a ELSE b
FMin(a, b) == Sgn(a) * Sgn(b) * MinI(Abs(a), Abs(b))
\* result record: u (decisions on all N positions), x (re-encoded), tie (an information leaf saw LLR = 0)
RECURSIVE SCmin(_, _, _, _)
SCmin(y, mask, fz, il) ==
    IF Len(y) = 1
    THEN LET d == IF mask[1] = 1 THEN (IF y[1] < 0 THEN 1 ELSE 0) ELSE fz
         IN [u |-> <<d>>, x |-> <<d>>, tie |-> (mask[1] = 1 /\ y[1] = 0)]
    ELSE LET a == IF il THEN Evens(y) ELSE FirstHalf(y)
             b == IF il THEN Odds(y) ELSE SecondHalf(y)
             y1 == [i \in 1..Len(a) |-> FMin(a[i], b[i])]
             r1 == SCmin(y1, FirstHalf(mask), fz, il)
             y2 == [i \in 1..Len(a) |-> b[i] + (1 - 2 * r1.x[i]) * a[i]]
             r2 == SCmin(y2, SecondHalf(mask), fz, il)
             xx == XorSeq(r1.x, r2.x)
         IN [u |-> r1.u \o r2.u, x |-> IF il THEN Interleave(xx, r2.x) ELSE xx \o r2.x, tie |-> r1.tie \/ r2.tie]

\* ------------------------------------------------------------------ SC, sum-product regime on the ln 2 lattice
\* a likelihood ratio P(0)/P(1) is a rational <<num, den>> > 0; LLR = p ln 2  <->  <<2^p, 1>> or <<1, 2^-p>>
LR(p) == IF p >= 0 THEN <<2 ^ p, 1>> ELSE <<1, 2 ^ (-p)>>
RECURSIVE Gcd(_, _)
Gcd(a, b) == IF b = 0 THEN a ELSE Gcd(b, a % b)
Norm(r) == LET g == Gcd(r[1], r[2]) IN <<r[1] \div g, r[2] \div g>>
\* check node: (1 + l1 l2) / (l1 + l2);   bit node: l2 * l1^(1-2u)
FSum(l1, l2) == Norm(<<l1[2] * l2[2] + l1[1] * l2[1], l1[1] * l2[2] + l2[1] * l1[2]>>)
GSum(l1, l2, u) == IF u = 0 THEN Norm(<<l2[1] * l1[1], l2[2] * l1[2]>>) ELSE Norm(<<l2[1] * l1[2], l2[2] * l1[1]>>)
RECURSIVE SCsum(_, _, _, _)
SCsum(y, mask, fz, il) ==
    IF Len(y) = 1
    THEN LET d == IF mask[1] = 1 THEN (IF y[1][1] < y[1][2] THEN 1 ELSE 0) ELSE fz
         IN [u |-> <<d>>, x |-> <<d>>, tie |-> (mask[1] = 1 /\ y[1][1] = y[1][2])]
    ELSE LET a == IF il THEN Evens(y) ELSE FirstHalf(y)
             b == IF il THEN Odds(y) ELSE SecondHalf(y)
             y1 == [i \in 1..Len(a) |-> FSum(a[i], b[i])]
             r1 == SCsum(y1, FirstHalf(mask), fz, il)
             y2 == [i \in 1..Len(a) |-> GSum(a[i], b[i], r1.x[i])]
             r2 == SCsum(y2, SecondHalf(mask), fz, il)
             xx == XorSeq(r1.x, r2.x)
         IN [u |-> r1.u \o r2.u, x |-> IF il THEN Interleave(xx, r2.x) ELSE xx \o r2.x, tie |-> r1.tie \/ r2.tie]
=============================================================================
