------------------------------ MODULE Trace_Modem ------------------------------
(***************************************************************************)
(* Validates traces recorded from kaira's modulators / demodulators, Gray   *)
(* utilities and LLR consumers (properties C05, C06, C14, C15).             *)
(* `Scheme` publishes a constellation (integer points scaled by S, labels); *)
(* later events refer to it.  kap is the LLR scale inferred from the first  *)
(* informative soft event of a scheme ("a fixed positive multiple"): it is  *)
(* an unlogged variable chosen by the specification, then held fixed.       *)
(***************************************************************************)
EXTENDS Modem, Gray, Json, IOUtils
TLog == ndJsonDeserialize(IOEnv.TRACE_FILE)
VARIABLES l, cur, kap
vars == <<l, cur, kap>>
Chk(c, clause) == IF c THEN TRUE ELSE PrintT(<<"MISMATCH", TLog[l].tid, l, clause>>)
Init == l = 1 /\ cur = [b |-> 0] /\ kap = <<0, 0>>

Scheme(e) == /\ cur' = [b |-> e.b, S |-> e.S, pts |-> e.pts, labels |-> e.labels, gray |-> e.gray, unit |-> e.unit, modidx |-> e.modidx, slack |-> e.slack]
             /\ kap' = <<0, 0>>

Constellation(e) ==
    /\ Chk(Len(cur.pts) = 2 ^ cur.b, "two_to_the_b_points")
    /\ Chk(LabelsBijective(cur.labels, cur.b), "labels_are_all_distinct_bit_patterns")
    /\ Chk(PointsDistinct(cur.pts), "points_are_distinct")
    /\ Chk(~cur.unit \/ UnitEnergy(cur.pts, cur.S), "unit_average_energy")
    /\ Chk(cur.modidx = <<>> \/ ~LabelsBijective(cur.labels, cur.b) \/ LabelModulatesToItsPoint(cur.labels, cur.modidx), "label_modulates_to_its_point")
    /\ Chk(~cur.gray \/ ~LabelsBijective(cur.labels, cur.b) \/ GrayNeighbours(cur.pts, cur.labels), "gray_nearest_neighbours_differ_in_one_bit")
    /\ UNCHANGED <<cur, kap>>

GrayEv(e) ==
    /\ Chk(e.g = B2GL(e.n), "binary_to_gray_value")
    /\ Chk(e.bg = e.n, "gray_to_binary_inverts_binary_to_gray")
    /\ Chk(B2GL(e.gb) = e.n, "binary_to_gray_inverts_gray_to_binary")
    /\ Chk(PopL(XorL(e.g, e.gnext)) = 1, "consecutive_integers_map_to_distance_one")
    /\ Chk(e.ga = e.g /\ e.ba = e.gb, "array_form_agrees_with_scalar_form")
    /\ UNCHANGED <<cur, kap>>

RoundTrip(e) ==
    /\ Chk(~e.raised, "round_trip_raised")
    /\ IF e.raised THEN TRUE ELSE Chk(e.nsym * cur.b = Len(e.bits), "symbols_equal_bits_over_bits_per_symbol")
    /\ IF e.raised THEN TRUE ELSE Chk(CASE e.kind = "dpsk" -> DpskLaw(e.bits, e.out, cur.b)
                         [] e.kind = "oqpsk" -> OqpskLaw(e.bits, e.out)
                         [] OTHER -> e.out = e.bits, "hard_demodulation_returns_the_bits")
    /\ UNCHANGED <<cur, kap>>

Hard(e) == /\ Chk(\E i \in Nearest(cur.pts, e.y, cur.slack) : cur.labels[i] = e.out, "hard_decision_is_a_nearest_point")
           /\ UNCHANGED <<cur, kap>>

Soft(e) ==
    LET d == Delta(cur.pts, cur.labels, e.y, e.k, cur.b)
        ds == IF d >= 0 THEN d \div e.C ELSE -((-d) \div e.C)
        informative == Abs(ds) >= 500 /\ e.q # 0
    IN /\ Chk(d <= cur.slack \/ e.sg > 0, "llr_positive_when_a_zero_labelled_point_is_nearer")
       /\ Chk(d >= -cur.slack \/ e.sg < 0, "llr_negative_when_a_one_labelled_point_is_nearer")
       /\ IF kap = <<0, 0>>
          THEN kap' = IF informative /\ Sgn(e.q) = Sgn(ds) /\ PrintT(<<"KAPPA", e.tid, e.q, ds>>) THEN <<e.q, ds>> ELSE kap
          ELSE /\ kap' = kap
               /\ Chk(Abs(e.q * kap[2] - kap[1] * ds) <= Abs(kap[1] * kap[2]) \div 100 + Abs(kap[2]) + 2 * Abs(kap[1]) + 10,
                      "llr_is_fixed_multiple_of_distance_difference_over_noise_variance")
       /\ UNCHANGED cur

Polarity(e) == /\ Chk(~e.raised /\ e.out = e.expect, "noise_free_llrs_reproduce_the_bits")
               /\ UNCHANGED <<cur, kap>>

\* P(bit = 1) = sigmoid(-LLR) with LLR = a ln 2, i.e. 1 / (1 + 2^a); logged as round(p * 10^6)
Sigmoid(e) == LET pw == 2 ^ Abs(e.a) IN
    /\ Chk(IF e.a >= 0 THEN Abs(e.p6 * (1 + pw) - 1000000) <= 2 * (1 + pw)
                       ELSE Abs(e.p6 * (pw + 1) - 1000000 * pw) <= 2 * (pw + 1), "probability_of_one_is_sigmoid_of_minus_llr")
    /\ UNCHANGED <<cur, kap>>

Next == /\ l <= Len(TLog)
        /\ LET e == TLog[l] IN
             CASE e.ev = "Scheme" -> Scheme(e)
               [] e.ev = "Constellation" -> Constellation(e)
               [] e.ev = "Gray" -> GrayEv(e)
               [] e.ev = "RoundTrip" -> RoundTrip(e)
               [] e.ev = "Hard" -> Hard(e)
               [] e.ev = "Soft" -> Soft(e)
               [] e.ev = "Polarity" -> Polarity(e)
               [] e.ev = "Sigmoid" -> Sigmoid(e)
               [] OTHER -> Chk(FALSE, "unknown_event") /\ UNCHANGED <<cur, kap>>
        /\ l' = l + 1
Spec == Init /\ [][Next]_vars
AllConsumed == TLCGet("stats").diameter = Len(TLog) + 1
=============================================================================
