---- MODULE MC_ParallelPool ----
EXTENDS ParallelPool
====
