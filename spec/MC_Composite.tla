---- MODULE MC_Composite ----
EXTENDS Composite
ValSet == {-2, 1, 3}              \* the configuration file does not accept negative literals
ValSet2 == {-2, 3}                \* for the longer histories of the thorough tier
MetricAdds == {<<1, 1>>, <<2, 1>>, <<1, 2>>}
LossAdds == {<<1, 4>>, <<1, 2>>, <<1, 1>>}
====
