---- MODULE MC_Composite ----
EXTENDS Composite
ValSet == {-2, 1, 3}              \* the configuration file does not accept negative literals
MetricAdds == {<<1, 1>>, <<2, 1>>, <<1, 2>>}
LossAdds == {<<1, 4>>, <<1, 2>>, <<1, 1>>}
====
