---------------------------- MODULE EvmAccumulator ----------------------------
(***************************************************************************)
(* kaira.metrics.ErrorVectorMagnitude used as a stateful metric (rms mode): *)
(* update accumulates the error power, the reference power (the number of   *)
(* symbols when normalisation is off) and the symbol count, and counts the  *)
(* batches whose own EVM exceeds the threshold; compute returns             *)
(* 100 * sqrt(error / reference) (error / count when not normalised), 0     *)
(* before any update; reset returns to the initial state.                   *)
(* A batch is a sequence of <<reference, error>> integer pairs; EVM values  *)
(* are carried as exact squared ratios <<num, den>>.                        *)
(***************************************************************************)
EXTENDS Naturals, Integers, Sequences, FiniteSets, TLC
CONSTANTS Refs, Errs, Normalize, Thr, MaxLen, MaxBatch, Export, Design
\* Thr: <<>> (no threshold) or the squared threshold ratio <<num, den>>; Design = "code" or, for the vacuity guard, "noreset"
VARIABLES sumErr, sumRef, total, viol, hist
vars == <<sumErr, sumRef, total, viol, hist>>

RECURSIVE SumErr(_, _), SumRef(_, _), SumRatioNum(_, _), DenProd(_, _)
SumErr(b, n) == IF n = 0 THEN 0 ELSE b[n][2] * b[n][2] + SumErr(b, n - 1)
SumRef(b, n) == IF n = 0 THEN 0 ELSE b[n][1] * b[n][1] + SumRef(b, n - 1)
DenProd(b, n) == IF n = 0 THEN 1 ELSE b[n][1] * b[n][1] * DenProd(b, n - 1)
\* numerator of sum_i e_i^2 / x_i^2 over the common denominator DenProd
SumRatioNum(b, n) == IF n = 0 THEN 0 ELSE b[n][2] * b[n][2] * (DenProd(b, Len(b)) \div (b[n][1] * b[n][1])) + SumRatioNum(b, n - 1)
\* the batch's own squared EVM: mean of e^2 / x^2 (normalised) or mean of e^2
BatchSq(b) == IF Normalize THEN <<SumRatioNum(b, Len(b)), Len(b) * DenProd(b, Len(b))>> ELSE <<SumErr(b, Len(b)), Len(b)>>
Exceeds(q, t) == q[1] * t[2] > t[1] * q[2]

Init == sumErr = 0 /\ sumRef = 0 /\ total = 0 /\ viol = 0 /\ hist = <<>>

\* history entries: <<op, batch, <<sumErr, sumRef, total, viol>> afterwards, value>>
Update(b) ==
    /\ sumErr' = sumErr + SumErr(b, Len(b))
    /\ sumRef' = sumRef + (IF Normalize THEN SumRef(b, Len(b)) ELSE Len(b))
    /\ total' = total + Len(b)
    /\ viol' = viol + (IF Thr # <<>> /\ Exceeds(BatchSq(b), Thr) THEN 1 ELSE 0)
    /\ hist' = Append(hist, <<"update", b, <<sumErr', sumRef', total', viol'>>, <<0, 1>>>>)
Compute ==
    /\ UNCHANGED <<sumErr, sumRef, total, viol>>
    /\ hist' = Append(hist, <<"compute", <<>>, <<sumErr, sumRef, total, viol>>,
                              IF total = 0 THEN <<0, 1>> ELSE <<sumErr, IF Normalize THEN sumRef ELSE total>>>>)
Reset ==
    /\ IF Design = "noreset" THEN UNCHANGED <<sumErr, sumRef, total, viol>>
       ELSE sumErr' = 0 /\ sumRef' = 0 /\ total' = 0 /\ viol' = 0
    /\ hist' = Append(hist, <<"reset", <<>>, <<sumErr', sumRef', total', viol'>>, <<0, 1>>>>)
Batches == UNION { [1..k -> Refs \X Errs] : k \in 1..MaxBatch }
Next == /\ Len(hist) < MaxLen
        /\ \/ \E b \in Batches : Update(b)
           \/ Compute
           \/ Reset
Spec == Init /\ [][Next]_vars

(***************************************************************************)
(* Properties                                                               *)
(***************************************************************************)
LastReset(j) == LET rs == { k \in 1..(j - 1) : hist[k][1] = "reset" } IN IF rs = {} THEN 0 ELSE CHOOSE k \in rs : \A m \in rs : m <= k
RECURSIVE ErrSince(_, _), RefSince(_, _), CountSince(_, _)
ErrSince(lo, j) == IF j <= lo THEN 0 ELSE (IF hist[j][1] = "update" THEN SumErr(hist[j][2], Len(hist[j][2])) ELSE 0) + ErrSince(lo, j - 1)
RefSince(lo, j) == IF j <= lo THEN 0 ELSE (IF hist[j][1] = "update" THEN SumRef(hist[j][2], Len(hist[j][2])) ELSE 0) + RefSince(lo, j - 1)
CountSince(lo, j) == IF j <= lo THEN 0 ELSE (IF hist[j][1] = "update" THEN Len(hist[j][2]) ELSE 0) + CountSince(lo, j - 1)
\* the computed value depends only on the symbols seen since the last reset, not on how they were cut into batches
BatchingInvariance == \A j \in 1..Len(hist) : hist[j][1] = "compute" =>
    LET lo == LastReset(j)
        n == CountSince(lo, j - 1)
        q == hist[j][4]
    IN IF n = 0 THEN q = <<0, 1>>
       ELSE q[1] * (IF Normalize THEN RefSince(lo, j - 1) ELSE n) = ErrSince(lo, j - 1) * q[2]
ViolationsBounded == viol <= Cardinality({ j \in 1..Len(hist) : hist[j][1] = "update" /\ j > LastReset(Len(hist) + 1) })
NoThresholdNoViolations == Thr = <<>> => viol = 0
ComputeIsPure == \A j \in 2..Len(hist) : hist[j][1] = "compute" => hist[j][3] = hist[j - 1][3]
ExportInv == (Export /\ Len(hist) = MaxLen /\ hist[MaxLen][1] = "compute") => PrintT(<<"EHIST", hist>>)
=============================================================================
