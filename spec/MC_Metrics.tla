------------------------------ MODULE MC_Metrics ------------------------------
EXTENDS Metrics
\* adversarial pool: all-equal, all-different, one difference, two differences in one block /
\* in two blocks, unequal sizes (B = 2)
MCPoolX == << <<0,1,1,0>>, <<1,1>>,  <<0,0,0,0,0,0>>, <<1,0,1,0>> >>
MCPoolY == << <<0,1,1,0>>, <<0,0>>,  <<0,0,0,1,0,0>>, <<1,1,1,1>> >>
=============================================================================
