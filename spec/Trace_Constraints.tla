----------------------------- MODULE Trace_Constraints -----------------------------
(* Validates sensor records of kaira's constraints (C08): per batch item measurements in ppm of the limit, plus the recorded stage order of composites. *)
EXTENDS Constraints, Json, IOUtils
TLog == ndJsonDeserialize(IOEnv.TRACE_FILE)
VARIABLE l
Chk(c, clause) == IF c THEN TRUE ELSE PrintT(<<"MISMATCH", TLog[l].tid, l, clause>>)

Power(e) ==
    IF e.raised THEN Chk(FALSE, "constraint_raised") ELSE
    /\ Chk(e.zero_input \/ NeverMore(e.power_ppm), "item_power_never_exceeds_target")
    /\ Chk(e.negligible \/ EqualWithinTenthPercent(e.power_ppm), "item_power_equals_target_within_0_1_percent")
    /\ Chk(e.zero_input \/ PositiveFactor(e.spread_ppm, e.positive), "output_is_positive_real_multiple_of_input")
    /\ Chk(e.negligible \/ e.idem_ppm <= 1100, "idempotent")
    /\ Chk(e.negligible \/ e.rescale_ppm <= 1100, "invariant_to_rescaling_the_input")
    /\ Chk(e.shape_ok, "shape_preserved")
Peak(e) == IF e.raised THEN Chk(FALSE, "constraint_raised") ELSE
           /\ Chk(WithinLimit(e.peak_ppm), "every_output_sample_within_peak_limit") /\ Chk(e.shape_ok, "shape_preserved")
Papr(e) == IF e.raised THEN Chk(FALSE, "constraint_raised") ELSE
           /\ Chk(~NonSparse(e.frac20_ppm) \/ WithinLimit(e.papr_ppm), "output_papr_within_limit") /\ Chk(e.shape_ok, "shape_preserved")
Composite(e) == IF e.raised THEN Chk(FALSE, "constraint_raised") ELSE
                \* (the recorded call order e.order is kept in the trace as information: the property demands equality of the RESULT with
                \*  sequential application, not a particular internal call sequence - an implementation may skip a provably redundant stage)
                /\ Chk(e.diff_ppm <= 5, "composite_equals_sequential_application")
                /\ Chk(e.chain_ppm <= 5, "constraint_chain_helper_equals_sequential_application")
\* the library's measurement helper against the definitions (mean |x|^2, max |x|^2, their ratio), each as tool/definition in ppm
Near1(p) == p >= 999800 /\ p <= 1000200
Measure(e) == IF e.raised THEN Chk(FALSE, "measurement_raised") ELSE
              /\ Chk(Near1(e.mean_ppm), "measured_mean_power_is_mean_of_squared_magnitudes")
              /\ Chk(Near1(e.peak_ppm), "measured_peak_power_is_max_of_squared_magnitudes")
              /\ Chk(Near1(e.amp_ppm), "measured_peak_amplitude_is_max_magnitude")
              /\ Chk(Near1(e.papr_ppm), "measured_papr_is_peak_over_mean")
              /\ Chk(e.db_centi = e.db_centi_ref \/ e.db_centi = e.db_centi_ref + 1 \/ e.db_centi + 1 = e.db_centi_ref, "measured_papr_db_is_ten_log10")
Factory(e) == IF e.raised THEN Chk(FALSE, "constraint_raised") ELSE
              /\ Chk(e.power_ppm < 0 \/ (NeverMore(e.power_ppm) /\ EqualWithinTenthPercent(e.power_ppm)), "factory_composite_meets_power_limit")
              /\ Chk(e.peak_ppm < 0 \/ WithinLimit(e.peak_ppm), "factory_composite_meets_peak_limit")
              /\ Chk(e.papr_ppm < 0 \/ ~NonSparse(e.frac20_ppm) \/ WithinLimit(e.papr_ppm), "factory_composite_meets_papr_limit")
              /\ Chk(e.ant_min_ppm < 0 \/ (e.ant_min_ppm >= 999000 /\ e.ant_max_ppm <= 1000002), "factory_composite_meets_per_antenna_power")
Init == l = 1
Next == /\ l <= Len(TLog)
        /\ LET e == TLog[l] IN
             CASE e.ev = "Power" -> Power(e)
               [] e.ev = "Peak" -> Peak(e)
               [] e.ev = "Papr" -> Papr(e)
               [] e.ev = "Composite" -> Composite(e)
               [] e.ev = "Factory" -> Factory(e)
               [] e.ev = "Measure" -> Measure(e)
               [] OTHER -> Chk(FALSE, "unknown_event")
        /\ l' = l + 1
Spec == Init /\ [][Next]_l
AllConsumed == TLCGet("stats").diameter = Len(TLog) + 1
=============================================================================
