---------------------------- MODULE MC_MetricsPool ----------------------------
(* Metrics instantiated with a pool of batches read from a JSON file (seeded by the harness). *)
EXTENDS Metrics, Json, IOUtils
PoolFile == JsonDeserialize(IOEnv.POOL_FILE)
EnvPoolX == PoolFile.x
EnvPoolY == PoolFile.y
=============================================================================
