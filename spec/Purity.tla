--------------------------------- MODULE Purity ---------------------------------
(***************************************************************************)
(* Per-sample purity (C20).  A component object is called with batches of   *)
(* members drawn from a pool; a pure component answers each member with a   *)
(* value that depends on the member only:  result = R[member], whatever the *)
(* batch, the position, the layout, the object or the earlier calls.        *)
(* `seen` is what the observer has learnt about R so far.  The alternative  *)
(* design Impure (the answer also depends on the position in the batch, or  *)
(* on a cache of the previous call) is kept to show that FunctionalConsistency *)
(* rejects it.                                                              *)
(***************************************************************************)
EXTENDS Naturals, Sequences, FiniteSets, TLC
CONSTANTS Pool, MaxBatch, MaxCalls, Design, Export
VARIABLES seen, calls, cache, hist
vars == <<seen, calls, cache, hist>>
NoVal == 0
Batches == UNION { [1..n -> Pool] : n \in 1..MaxBatch }
Layouts == {"rows", "blocks"}          \* (B, n): one member per row;  (1, B*n): members concatenated along the last dimension
R(m) == 100 + m                        \* the pure answer
Answer(b, i, c) == CASE Design = "pure" -> R(b[i])
                     [] Design = "position" -> IF i = 2 THEN R(b[i]) + 1 ELSE R(b[i])
                     [] Design = "stale_cache" -> IF c # NoVal /\ i = 1 THEN c ELSE R(b[i])
Init == seen = [m \in Pool |-> NoVal] /\ calls = 0 /\ cache = NoVal /\ hist = <<>>
Consistent(b, res) == \A i \in 1..Len(b) : seen[b[i]] = NoVal \/ seen[b[i]] = res[i]
Call(b, lay) ==
    /\ calls < MaxCalls
    /\ LET res == [i \in 1..Len(b) |-> Answer(b, i, cache)] IN
         /\ hist' = Append(hist, [batch |-> b, layout |-> lay, res |-> res, ok |-> Consistent(b, res)])
         /\ seen' = [m \in Pool |-> IF seen[m] # NoVal THEN seen[m]
                                    ELSE IF \E i \in 1..Len(b) : b[i] = m THEN res[CHOOSE i \in 1..Len(b) : b[i] = m] ELSE NoVal]
         /\ cache' = res[Len(b)]
    /\ calls' = calls + 1
Next == \E b \in Batches, lay \in Layouts : Call(b, lay)
Spec == Init /\ [][Next]_vars
FunctionalConsistency == \A i \in 1..Len(hist) : hist[i].ok /\ (\A p, q \in 1..Len(hist[i].batch) : hist[i].batch[p] = hist[i].batch[q] => hist[i].res[p] = hist[i].res[q])
ExportInv == (Export /\ calls = MaxCalls) => PrintT(<<"CALLS", [i \in 1..Len(hist) |-> <<hist[i].batch, hist[i].layout>>]>>)
=============================================================================
