-------------------------------- MODULE Thresholders --------------------------------
(***************************************************************************)
(* The two soft-bit thresholders of kaira.models.binary that carry state    *)
(* across calls, as state machines.                                         *)
(*                                                                          *)
(* Hysteresis: one latch per position.  An input above the high threshold   *)
(* sets the latch, one below the low threshold clears it, anything in the   *)
(* closed band [low, high] leaves it; the output is the latch.  The latches *)
(* are created (all zero) by the first call, by a call with reset_state,    *)
(* or when the input shape differs from the stored state; reset_state(init) *)
(* installs given latches or forgets them.                                  *)
(*                                                                          *)
(* Dynamic: an exponentially averaged threshold.  Each call first folds the *)
(* batch mean into the running mean (decay 1/2 here, so all values are      *)
(* dyadic and the arithmetic below is exact in integer units of 1/Unit),    *)
(* clamps it to [MinT, MaxT], and only then compares the inputs with the    *)
(* NEW threshold.  forward(reset=True) and reset_stats() without argument   *)
(* clear the variance only - mean and threshold are kept (that is what the  *)
(* code does; it is modelled, not idealised); reset_stats(v) installs v.    *)
(* Inputs are in eighths (0..8), Unit = 16 * 2^Depth.                       *)
(***************************************************************************)
EXTENDS Naturals, Integers, Sequences, FiniteSets, TLC
CONSTANTS Machine,   \* "hysteresis" | "dynamic"
          MaxLen,    \* history length
          Vals1, Vals2, \* input values (eighths) used for length-1 and length-2 inputs
          Low, High, \* hysteresis thresholds in eighths
          Design,    \* "latch" (the code) | "stateless" (a named wrong design: compare with the middle of the band; used as a vacuity guard)
          Export
VARIABLES st,        \* hysteresis: <<-1>> (no state) or a sequence of latches; dynamic: <<thr, mean>> in units
          hist
vars == <<st, hist>>
Unit == 16 * (2 ^ MaxLen)
Eighth == Unit \div 8
MinT == Eighth
MaxT == 7 * Eighth
NoState == <<-1>>
Zeros(n) == [i \in 1..n |-> 0]
Inputs == { <<a>> : a \in Vals1 } \cup { <<a, b>> : a \in Vals2, b \in Vals2 }
\* ---------------------------------------------------------------- hysteresis
Latch(s, v) == IF Design = "stateless" THEN (IF 2 * v > Low + High THEN 1 ELSE 0)
               ELSE IF v > High THEN 1 ELSE IF v < Low THEN 0 ELSE s
HBase(x, reset) == IF reset \/ st = NoState \/ Len(st) # Len(x) THEN Zeros(Len(x)) ELSE st
HForward(x, reset) == LET new == [i \in 1..Len(x) |-> Latch(HBase(x, reset)[i], x[i])] IN
                      /\ st' = new
                      /\ hist' = Append(hist, <<"fwd", x, reset, new>>)
HReset(init) == st' = init /\ hist' = Append(hist, <<"rst", init, FALSE, <<>>>>)
HInits == {NoState, <<0>>, <<1>>, <<0, 0>>, <<0, 1>>, <<1, 0>>, <<1, 1>>}
\* ---------------------------------------------------------------- dynamic
Clamp(v) == IF v < MinT THEN MinT ELSE IF v > MaxT THEN MaxT ELSE v
BatchMean(x) == IF Len(x) = 1 THEN x[1] * Eighth ELSE ((x[1] + x[2]) * Eighth) \div 2
DForward(x, reset) == LET m == (st[2] + BatchMean(x)) \div 2
                          t == Clamp(m)
                          out == [i \in 1..Len(x) |-> IF x[i] * Eighth > t THEN 1 ELSE 0] IN
                      /\ st' = <<t, m>>
                      /\ hist' = Append(hist, <<"fwd", x, reset, out, t, Unit>>)
DReset(v) == /\ st' = IF v < 0 THEN st ELSE <<v * Eighth, v * Eighth>>
             /\ hist' = Append(hist, <<"rst", <<v>>, FALSE, <<>>, (IF v < 0 THEN st[1] ELSE v * Eighth), Unit>>)
\* ---------------------------------------------------------------- machine
Init == /\ st = IF Machine = "hysteresis" THEN NoState ELSE <<Unit \div 2, Unit \div 2>>
        /\ hist = <<>>
Next == /\ Len(hist) < MaxLen
        /\ IF Machine = "hysteresis"
           THEN \/ \E x \in Inputs, r \in BOOLEAN : HForward(x, r)
                \/ \E i \in HInits : HReset(i)
           ELSE \/ \E x \in Inputs, r \in BOOLEAN : DForward(x, r)
                \/ \E v \in {-1, 2, 4, 6} : DReset(v)
Spec == Init /\ [][Next]_vars
\* ---------------------------------------------------------------- properties
\* Declarative reading of the latch: the output at position p of call j is decided by the most recent input outside the band
\* since the latches were last (re)created, and by the installed / zero initial latch when there is none.
Created(j) ==    \* the latches used by forward call j were created by that call (zeros) rather than inherited
    LET h == hist[j] IN
    \/ h[3]
    \/ j = 1
    \/ (hist[j - 1][1] = "rst" /\ (hist[j - 1][2] = NoState \/ Len(hist[j - 1][2]) # Len(h[2])))
    \/ (hist[j - 1][1] = "fwd" /\ Len(hist[j - 1][4]) # Len(h[2]))
RECURSIVE Expected(_, _)
Expected(j, p) == LET h == hist[j] IN
    IF h[2][p] > High THEN 1
    ELSE IF h[2][p] < Low THEN 0
    ELSE IF Created(j) THEN 0
    ELSE IF hist[j - 1][1] = "rst" THEN hist[j - 1][2][p]
    ELSE Expected(j - 1, p)
LatchLaw == Machine = "hysteresis" =>
    \A j \in 1..Len(hist) : hist[j][1] = "fwd" => \A p \in 1..Len(hist[j][2]) : hist[j][4][p] = Expected(j, p)
OutputsAreBits == \A j \in 1..Len(hist) : hist[j][1] = "fwd" => \A p \in 1..Len(hist[j][4]) : hist[j][4][p] \in {0, 1}
\* the dynamic threshold never leaves [MinT, MaxT] once a call has been made, and an input equal to 0 (1) is never (always) above it
ThresholdBounded == Machine = "dynamic" => \A j \in 1..Len(hist) : hist[j][1] = "fwd" => (hist[j][5] >= MinT /\ hist[j][5] <= MaxT)
Extremes == Machine = "dynamic" => \A j \in 1..Len(hist) : hist[j][1] = "fwd" =>
    \A p \in 1..Len(hist[j][2]) : (hist[j][2][p] = 0 => hist[j][4][p] = 0) /\ (hist[j][2][p] = 8 => hist[j][4][p] = 1)
\* feeding the same batch for ever moves the running mean monotonically towards the batch mean (checked on consecutive equal calls)
Monotone == Machine = "dynamic" => \A j \in 2..Len(hist) :
    (hist[j][1] = "fwd" /\ hist[j - 1][1] = "fwd" /\ hist[j][2] = hist[j - 1][2]) =>
        LET bm == Clamp(BatchMean(hist[j][2])) IN
        \/ (hist[j - 1][5] <= hist[j][5] /\ hist[j][5] <= bm)
        \/ (hist[j - 1][5] >= hist[j][5] /\ hist[j][5] >= bm)
ExportInv == (Export /\ Len(hist) = MaxLen /\ hist[MaxLen][1] = "fwd") => PrintT(<<"THIST", hist>>)
=============================================================================
