------------------------------- MODULE MC_GF2 -------------------------------
(* Oracle soundness: the GF2 operators satisfy the linear-algebra facts the trace specs rely on, *)
(* checked exhaustively for every k x n matrix pair with small n (one vector = one limb here).   *)
EXTENDS GF2
CONSTANTS NN, KK, ExportFull
VARIABLE G
Vec == 0..(2 ^ NN - 1)
V(x) == <<x>>
\* the matrix is built row by row so that TLC's workers share the enumeration
Init == G = <<>>
Next == Len(G) < KK /\ \E x \in Vec : G' = Append(G, x)
Full == Len(G) = KK
Spec == Init /\ [][Next]_G
Rows == [i \in 1..KK |-> V(G[i])]
Code == Span(Rows, 1)
Msgs == 0..(2 ^ KK - 1)
\* rank = log2 |span|
RankIsDimension == Full => Cardinality(Code) = 2 ^ Rank(Rows)
\* Enc is linear and onto the span; injective iff full rank
EncOnto == Full => { Enc(V(m), Rows, 1) : m \in Msgs } = Code
EncInjectiveIffFullRank == Full => (Rank(Rows) = KK) <=> (\A a, b \in Msgs : Enc(V(a), Rows, 1) = Enc(V(b), Rows, 1) => a = b)
MembershipByReduction == Full => \A w \in Vec : InSpan(V(w), Basis(Rows)) <=> V(w) \in Code
\* the lemma behind C01: if H has rank n-k and is orthogonal to a rank-k G, then Syn(w)=0 <=> w in Code
NullSpaceLemma == (Full /\ Rank(Rows) = KK) =>
    \A Hf \in [1..(NN - KK) -> Vec] :
        LET H == [i \in 1..(NN - KK) |-> V(Hf[i])] IN
        (Rank(Rows) = KK /\ Rank(H) = NN - KK /\ \A i \in 1..KK, j \in 1..(NN - KK) : Dot(Rows[i], H[j]) = 0)
            => \A w \in Vec : IsZero(Syn(V(w), H)) <=> V(w) \in Code
\* behaviour export: every full-rank generator matrix (as row naturals)
ExportInv == (ExportFull /\ Full /\ Rank(Rows) = KK) => PrintT(<<"GM", G>>)
WtOK == \A w \in Vec : Wt(V(w)) = Cardinality(Support(V(w), NN))
RotOK == \A w \in Vec : Wt(Rot(V(w), NN)) = Wt(V(w)) /\ Rev(Rev(V(w), NN), NN) = V(w)
=============================================================================
