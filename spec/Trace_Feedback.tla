----------------------------- MODULE Trace_Feedback -----------------------------
(***************************************************************************)
(* Validates component-call traces recorded from a real                     *)
(* FeedbackChannelModel (arithmetic stub components) against Feedback.tla:  *)
(* a Run event fixes the input and the iteration count, every Call event    *)
(* must be the specification's next component call with the specification's *)
(* arguments and result, and the Result event must list what the            *)
(* specification stored.  The bookkeeping steps Begin / Store / Finish are  *)
(* not logged; they are composed into the logged step they precede or       *)
(* follow (at most two per event).                                          *)
(***************************************************************************)
EXTENDS Feedback, Json, IOUtils
TLog == ndJsonDeserialize(IOEnv.TRACE_FILE)
VARIABLE l
Chk(c, clause) == IF c THEN TRUE ELSE PrintT(<<"MISMATCH", TLog[l].tid, l, clause>>)
tvars == <<x, n, pc, it, st, enc, rec, dec, gen, fb, iters, calls, l>>

TInit == /\ l = 1
         /\ x = 0 /\ n = 0 /\ pc = "idle" /\ it = 0 /\ st = NoVal /\ enc = NoVal /\ rec = NoVal /\ dec = NoVal /\ gen = NoVal /\ fb = NoVal
         /\ iters = <<>> /\ calls = <<>>

\* a new run: the specification's initial state for the logged input and iteration count
StartRun(e) == /\ x' = e.x /\ n' = e.n /\ pc' = "start" /\ it' = 0 /\ st' = NoVal /\ enc' = NoVal /\ rec' = NoVal /\ dec' = NoVal /\ gen' = NoVal /\ fb' = NoVal
               /\ iters' = <<>> /\ calls' = <<>>

\* which component the specification calls next from the current control state (after the unlogged Begin, if one is due)
NextComp == IF pc \in {"start", "stored"}
            THEN (IF it < n THEN (IF it = 0 THEN "encoder" ELSE "processor") ELSE "none")
            ELSE CASE pc = "process" -> "processor" [] pc = "encode" -> "encoder" [] pc = "forward" -> "forward_channel"
                   [] pc = "decode" -> "decoder" [] pc = "generate" -> "feedback_generator" [] pc = "fbchannel" -> "feedback_channel" [] OTHER -> "none"

\* one logged call = (Begin when due) . component action . (Store after the feedback channel)
StepCall(e) ==
    LET due == pc \in {"start", "stored"}
        it1 == IF due THEN it + 1 ELSE it
        c == NextComp
        a == CASE c = "processor" -> (IF Design = "stale" THEN gen ELSE fb) [] c = "encoder" -> x [] c = "forward_channel" -> enc
               [] c = "decoder" -> rec [] c = "feedback_generator" -> dec [] c = "feedback_channel" -> gen [] OTHER -> NoVal
        b == CASE c = "encoder" -> (IF it1 = 1 THEN NoVal ELSE st) [] c = "feedback_generator" -> x [] OTHER -> NoVal
        o == CASE c = "processor" -> ProcF(a) [] c = "encoder" -> EncF(a, b) [] c = "forward_channel" -> FwdF(a)
               [] c = "decoder" -> DecF(a) [] c = "feedback_generator" -> GenF(a, b) [] c = "feedback_channel" -> FbF(a) [] OTHER -> NoVal
    IN /\ Chk(c # "none", "no_component_call_after_the_last_iteration")
       /\ Chk(c = "none" \/ e.comp = c, "components_called_in_protocol_order")
       /\ Chk(c = "none" \/ e.comp # c \/ e.a = a, "component_receives_the_previous_components_output")
       /\ Chk(c = "none" \/ e.comp # c \/ e.b = b, "second_argument_is_the_original_input_or_the_processed_feedback")
       /\ Chk(c = "none" \/ e.comp # c \/ e.out = o, "component_result_recorded_unchanged")
       /\ IF c = "none" \/ e.comp # c
          THEN UNCHANGED <<x, n, pc, it, st, enc, rec, dec, gen, fb, iters, calls>>         \* verdict given; stay, the rest of this run is judged against the same state
          ELSE /\ it' = it1
               /\ st' = IF c = "processor" THEN o ELSE st
               /\ enc' = IF c = "encoder" THEN o ELSE enc
               /\ rec' = IF c = "forward_channel" THEN o ELSE rec
               /\ dec' = IF c = "decoder" THEN o ELSE dec
               /\ gen' = IF c = "feedback_generator" THEN o ELSE gen
               /\ fb' = IF c = "feedback_channel" THEN o ELSE fb
               /\ iters' = IF c = "feedback_channel" THEN Append(iters, <<enc, rec, dec, o>>) ELSE iters
               /\ pc' = CASE c = "processor" -> "encode" [] c = "encoder" -> "forward" [] c = "forward_channel" -> "decode"
                          [] c = "decoder" -> "generate" [] c = "feedback_generator" -> "fbchannel" [] OTHER -> "stored"
               /\ calls' = Append(calls, <<c, a, b, o>>)
               /\ UNCHANGED <<x, n>>

\* the dictionary the model returns
StepResult(e) ==
    /\ Chk(pc \in {"start", "stored"} /\ it = n, "result_returned_only_after_the_last_iteration")
    /\ Chk(e.iterations = [i \in DOMAIN iters |-> <<iters[i][1], iters[i][2], iters[i][3], iters[i][4]>>], "result_lists_every_iteration_as_stored")
    /\ Chk(e.history = [i \in DOMAIN iters |-> iters[i][4]], "feedback_history_is_the_stored_feedback_of_every_iteration")
    /\ Chk(e.has_final = (n > 0), "final_output_present_exactly_when_an_iteration_ran")
    /\ Chk(n = 0 \/ ~e.has_final \/ iters = <<>> \/ e.final = iters[Len(iters)][3], "final_output_is_the_last_decoded_value")
    /\ pc' = "done" /\ UNCHANGED <<x, n, it, st, enc, rec, dec, gen, fb, iters, calls>>

TNext == /\ l <= Len(TLog)
         /\ LET e == TLog[l] IN
              CASE e.ev = "Run" -> StartRun(e)
                [] e.ev = "Call" -> StepCall(e)
                [] e.ev = "Result" -> StepResult(e)
                [] OTHER -> Chk(FALSE, "unknown_event") /\ UNCHANGED <<x, n, pc, it, st, enc, rec, dec, gen, fb, iters, calls>>
         /\ l' = l + 1
TraceSpec == TInit /\ [][TNext]_tvars
\* the specification's own invariants hold along every validated trace
TraceInvariants == ProcessorSeesStoredFeedback /\ EncoderState /\ Dataflow
AllConsumed == TLCGet("stats").diameter = Len(TLog) + 1
=============================================================================
