------------------------------ MODULE MetricsInd ------------------------------
(***************************************************************************)
(* Unbounded-history safety of the streaming error-rate accumulators        *)
(* (C16) as an inductive invariant, discharged by Apalache:                 *)
(*   Init => IndInv   and   IndInv /\ Next => IndInv'.                      *)
(* A batch is abstracted to its summary (bits, errs, blocks, eblocks) with  *)
(* the consistency every real batch has for block size B.                   *)
(***************************************************************************)
EXTENDS Integers
B == 4
VARIABLES
    \* @type: Int;
    tb,
    \* @type: Int;
    eb,
    \* @type: Int;
    tbl,
    \* @type: Int;
    ebl
Init == tb = 0 /\ eb = 0 /\ tbl = 0 /\ ebl = 0
\* any batch: nb blocks of B bits, e errors spread over ebk blocks
Update == \E nb \in 0..1000 : \E ebk \in 0..1000 : \E e \in 0..4000 :
            /\ ebk <= nb /\ ebk <= e /\ e <= B * ebk
            /\ tb' = tb + B * nb /\ eb' = eb + e /\ tbl' = tbl + nb /\ ebl' = ebl + ebk
Reset == tb' = 0 /\ eb' = 0 /\ tbl' = 0 /\ ebl' = 0
Compute == UNCHANGED <<tb, eb, tbl, ebl>>
Next == Update \/ Reset \/ Compute
\* the inductive invariant (type + relations between the counters)
IndInv == /\ tb >= 0 /\ eb >= 0 /\ tbl >= 0 /\ ebl >= 0
          /\ tb = B * tbl
          /\ ebl <= tbl
          /\ ebl <= eb /\ eb <= B * ebl
\* initial predicate for the inductive step: any state satisfying IndInv
IndInit == /\ tb \in Int /\ eb \in Int /\ tbl \in Int /\ ebl \in Int
           /\ IndInv
\* what the property needs, as consequences of IndInv (cross-multiplied): BER <= BLER <= min(1, B * BER)
Sandwich == /\ eb <= tb
            /\ eb * tbl <= ebl * tb
            /\ ebl <= tbl
            /\ ebl * tb <= B * eb * tbl
=============================================================================
