------------------------------ MODULE MacWilliams ------------------------------
(***************************************************************************)
(* The MacWilliams identity in modular arithmetic.  For a binary linear     *)
(* code C of length n with dual D, weight distributions A (of C) and B (of  *)
(* D):      |D| * A_j  =  sum_{i=0..n} B_i * K_j(i)                          *)
(* with the Krawtchouk polynomial K_j(i) = sum_s (-1)^s C(i,s) C(n-i,j-s).  *)
(* The numbers exceed 32 bits, so everything is computed modulo five 15-bit *)
(* primes whose product exceeds 2^74 > 2^n * 2^(n-k) for n <= 63: since     *)
(* 0 <= A_j <= C(n,j) < 2^63 and |D| = 2^(n-k) is invertible modulo every   *)
(* odd prime,  A_j = 0  iff  the right-hand side vanishes modulo all five.  *)
(* B is a sequence of length n + 1 (B[i + 1] = number of dual words of      *)
(* weight i).                                                               *)
(***************************************************************************)
EXTENDS Naturals, Integers, Sequences
MWPrimes == <<32749, 32719, 32717, 32713, 32707>>
\* Pascal's triangle modulo p: row r at index r + 1, entry c at index c + 1
RECURSIVE PascalRows(_, _, _)
PascalRows(n, p, acc) ==
    IF Len(acc) > n THEN acc
    ELSE LET prev == acc[Len(acc)]
             r == Len(acc)
             row == [c \in 1..(r + 1) |-> IF c = 1 \/ c = r + 1 THEN 1 ELSE (prev[c - 1] + prev[c]) % p]
         IN PascalRows(n, p, Append(acc, row))
Pascal(n, p) == PascalRows(n, p, <<<<1>>>>)
\* constant-level, so TLC evaluates the five tables once (rows 0..63 serve every n <= 63); the table index q stands for the prime
PascalTables == [q \in DOMAIN MWPrimes |-> Pascal(63, MWPrimes[q])]
MWBinom(T, a, b) == IF b < 0 \/ b > a \/ a < 0 THEN 0 ELSE PascalTables[T][a + 1][b + 1]
RECURSIVE KSum(_, _, _, _, _, _)
KSum(T, n, p, j, i, s) ==
    IF s > j THEN 0
    ELSE LET term == (MWBinom(T, i, s) * MWBinom(T, n - i, j - s)) % p
         IN ((IF (s % 2) = 0 THEN term ELSE ((p - term) % p)) + KSum(T, n, p, j, i, s + 1)) % p
Kraw(T, n, p, j, i) == KSum(T, n, p, j, i, 0)
RECURSIVE TSum(_, _, _, _, _, _)
TSum(T, B, n, p, j, i) ==
    IF i > n THEN 0 ELSE ((((B[i + 1] % p) * Kraw(T, n, p, j, i)) % p) + TSum(T, B, n, p, j, i + 1)) % p
\* |D| * A_j modulo p = MWPrimes[T] (T is the index of the prime's table)
Transformed(T, B, n, p, j) == TSum(T, B, n, p, j, 0)
\* no codeword of weight 1 .. dd - 1
NoWeightBelow(B, n, dd) ==
    \A q \in DOMAIN MWPrimes : \A j \in 1..(dd - 1) : Transformed(q, B, n, MWPrimes[q], j) = 0
\* some codeword of weight exactly j
HasWeight(B, n, j) ==
    \E q \in DOMAIN MWPrimes : Transformed(q, B, n, MWPrimes[q], j) # 0
\* a well-formed dual distribution: one zero word, 2^(n-k) words in all (n - k <= 30)
RECURSIVE SumSeq(_, _)
SumSeq(B, i) == IF i = 0 THEN 0 ELSE B[i] + SumSeq(B, i - 1)
DualWellFormed(B, n, k) == Len(B) = n + 1 /\ B[1] = 1 /\ (n - k <= 30 => SumSeq(B, n + 1) = 2 ^ (n - k)) /\ \A i \in DOMAIN B : B[i] >= 0
=============================================================================
