------------------------------ MODULE MC_Families ------------------------------
EXTENDS Families
VARIABLE case
Cases ==
    { <<"hamming", mu, ext>> : mu \in 2..4, ext \in {0, 1} } \cup
    { <<"repetition", r, 0>> : r \in 1..9 } \cup
    { <<"spc", k, 0>> : k \in 1..10 } \cup
    { <<"rm", r, m>> : r \in 0..3, m \in 1..4 } \cup { <<"rm", 1, 5>> } \cup
    { <<"golay", e, 0>> : e \in {0, 1} } \cup
    { <<"cyclic", 7, 11>>, <<"cyclic", 15, 465>>, <<"cyclic", 15, 1335>> }   \* g as naturals: 0b1011, 0b111010001, 0b10100110111
Init == case \in Cases
Next == UNCHANGED case
Spec == Init /\ [][Next]_case

Sets(c) == CASE c[1] = "hamming" -> HammingSets(c[2], c[3] = 1)
             [] c[1] = "repetition" -> RepetitionSets(c[2])
             [] c[1] = "spc" -> SpcSets(c[2])
             [] c[1] = "rm" -> RMSets(c[2], c[3])
             [] c[1] = "golay" -> IF c[2] = 0 THEN CyclicSets(23, GolayG) ELSE ExtendSets(CyclicSets(23, GolayG), 23)
             [] c[1] = "cyclic" -> CyclicSets(c[2], BitsOf(c[3]))
Applicable(c) == c[1] # "rm" \/ c[2] < c[3]
NKD(c) == CASE c[1] = "hamming" -> FamilyNKD("hamming", <<c[2], c[3]>>)
            [] c[1] = "repetition" -> FamilyNKD("repetition", <<c[2]>>)
            [] c[1] = "spc" -> FamilyNKD("spc", <<c[2]>>)
            [] c[1] = "rm" -> FamilyNKD("rm", <<c[2], c[3]>>)
            [] c[1] = "golay" -> FamilyNKD("golay", <<c[2]>>)
            [] c[1] = "cyclic" -> IF c[3] = 11 THEN <<7, 4, 3>> ELSE IF c[3] = 465 THEN <<15, 7, 5>> ELSE <<15, 5, 7>>

FamilyOK ==
    Applicable(case) =>
    LET f == NKD(case)
        n == f[1]
        G == RowsFromSets(Sets(case), n)
        B == Basis(G)
    IN /\ Len(G) = f[2]
       /\ Rank(G) = f[2]
       /\ MinDistEnum(G, NLimbs(n)) = f[3]
       /\ (case[1] = "cyclic" \/ (case[1] = "golay" /\ case[2] = 0)) =>
             /\ CyclicClosed(G, n, B)
             /\ Divides(IF case[1] = "golay" THEN GolayG ELSE BitsOf(case[3]), {0, n})
             /\ \A i \in 1..Len(G) : Divides(IF case[1] = "golay" THEN GolayG ELSE BitsOf(case[3]), Support(G[i], n))
       /\ ((case[1] = "hamming" /\ case[3] = 0) \/ (case[1] = "golay" /\ case[2] = 0)) => SpherePacking(n, f[2], (f[3] - 1) \div 2)
       /\ (case[1] = "spc" /\ case[2] >= 2) => ~SpherePacking(n, f[2], 1)
=============================================================================
