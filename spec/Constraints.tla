-------------------------------- MODULE Constraints --------------------------------
(***************************************************************************)
(* Contracts of kaira's signal constraints over measured quantities (ppm of *)
(* the configured limit) and the composition law: a composite constraint is *)
(* the left-to-right fold of its parts.  Stages are modelled as functions   *)
(* on a small integer domain so that order sensitivity is visible.          *)
(***************************************************************************)
EXTENDS Naturals, Integers, Sequences, FiniteSets, TLC
Abs(v) == IF v < 0 THEN -v ELSE v
\* ----- contracts (all quantities in ppm of the limit; 10^6 = exactly at the limit)
NeverMore(power_ppm) == power_ppm <= 1000000 + 2                      \* float32 rounding allowance: 2 ppm
EqualWithinTenthPercent(power_ppm) == power_ppm >= 999000
PositiveFactor(ratio_spread_ppm, positive) == positive /\ ratio_spread_ppm <= 20
WithinLimit(ppm) == ppm <= 1000000 + 2
NonSparse(frac20_ppm) == frac20_ppm >= 250000                         \* at least a quarter of the samples within 20 dB of the peak
\* ----- composition: fold of stage functions, modelled on integers
Stage(kind, v) == CASE kind = "clip3" -> (IF v > 3 THEN 3 ELSE IF v < -3 THEN -3 ELSE v)
                    [] kind = "double" -> 2 * v
                    [] kind = "neg" -> -v
                    [] kind = "inc" -> v + 1
RECURSIVE Fold(_, _)
Fold(stages, v) == IF stages = <<>> THEN v ELSE Fold(Tail(stages), Stage(Head(stages), v))
=============================================================================
