--------------------------- MODULE MC_BinaryChannels ---------------------------
EXTENDS BinaryChannels
VARIABLE c
Init == c \in { <<ch, al, er>> : ch \in {"bsc", "z", "bec"}, al \in {"binary", "bipolar"}, er \in {-2, 0, 1, 4} }
Next == UNCHANGED c
Spec == Init /\ [][Next]_c
LawOK == LET ch == c[1]  al == c[2]  er == c[3] IN
    /\ \A x \in Alphabet(al) : \E y \in Alphabet(al) \cup {er} : Allowed(ch, al, er, x, y)                       \* total
    /\ \A x \in Alphabet(al) : \A y \in -8..8 : Allowed(ch, al, er, x, y) => y \in Alphabet(al) \cup {er}       \* closed
    /\ \A x \in Alphabet(al) : Allowed(ch, al, er, x, x)                                                         \* identity is allowed
    /\ \A x \in Alphabet(al) : Eligible(ch, al, er, x) => Allowed(ch, al, er, x, Extreme(ch, al, er, x))         \* extreme is allowed
    /\ \A x \in Alphabet(al), y \in -8..8 : IsEvent(ch, al, er, x, y) /\ Allowed(ch, al, er, x, y) => Eligible(ch, al, er, x)
    /\ \A pn \in {0, 1, 500, 999, 1000} : InBand(Mean(2000000, pn, 1000), 2000000, pn, 1000, 49)                 \* no overflow, mean inside band
    /\ ~InBand(Mean(1000000, 500, 1000) + 4000, 1000000, 500, 1000, 49)                                          \* 8 sigma is outside
=============================================================================
