---- MODULE MC_EvmAccumulator ----
EXTENDS EvmAccumulator
RefSet == {1, -2}                 \* the configuration file does not accept negative literals
ErrSet == {-1, 0, 2}
ErrSet2 == {0, 2}
NoThr == <<>>
Thr60 == <<9, 25>>                \* 60 % : squared ratio 0.36, never met exactly by the driver's batches
====
