------------------------------ MODULE Trace_Polar ------------------------------
(***************************************************************************)
(* Validates traces recorded from kaira's polar encoder and its SC / BP     *)
(* decoders (property C11).  `Rank` publishes the reliability sequence once; *)
(* `Code` publishes one code object (N, k, frozen value, interleaving, the  *)
(* information mask the object reports); later events refer to it.          *)
(***************************************************************************)
EXTENDS Polar, Json, IOUtils
TLog == ndJsonDeserialize(IOEnv.TRACE_FILE)
VARIABLES l, rank, cur
vars == <<l, rank, cur>>
Chk(c, clause) == IF c THEN TRUE ELSE PrintT(<<"MISMATCH", TLog[l].tid, l, clause>>)
Init == l = 1 /\ rank = <<>> /\ cur = [N |-> 0]

\* structural facts that identify a reliability sequence: a permutation of 0..1023 that respects the universal partial order
\* (i a sub-mask of j  =>  j is at least as reliable as i), checked on the 10 x 1024 covering pairs
RankEv(e) ==
    LET r == e.rank
        pos == [v \in 0..(Len(r) - 1) |-> CHOOSE i \in 1..Len(r) : r[i] = v]
    IN /\ Chk(Len(r) = 1024 /\ { r[i] : i \in 1..Len(r) } = 0..1023, "ranking_is_a_permutation_of_0_1023")
       /\ Chk(\A v \in 0..1023 : \A bit \in 0..9 : ((v \div (2 ^ bit)) % 2 = 0) => pos[v] < pos[v + 2 ^ bit], "ranking_respects_universal_partial_order")
       /\ rank' = r /\ UNCHANGED cur

CodeEv(e) ==
    LET mask == IF e.usermask = <<>> THEN InfoMask(rank, e.N, e.k) ELSE e.usermask IN
    /\ Chk(Cardinality({ j \in 1..Len(e.info) : e.info[j] = 1 }) = e.k /\ Len(e.info) = e.N, "exactly_k_information_positions")
    /\ Chk(e.info = mask, "information_set_is_the_ranking_selection")
    /\ Chk(e.gm = <<>> \/ \A i \in 1..e.N : e.gm[i] = Transform([j \in 1..e.N |-> IF j = i THEN 1 ELSE 0]), "generator_matrix_is_kronecker_power")
    /\ cur' = [N |-> e.N, k |-> e.k, fz |-> e.fz, il |-> e.il, mask |-> mask]
    /\ UNCHANGED rank

EncEv(e) == /\ Chk(~e.raised /\ e.x = Encode(Place(e.msg, cur.mask, cur.fz), cur.il), "codeword_is_arikan_transform_of_placed_message")
            /\ UNCHANGED <<rank, cur>>

\* noise-free LLRs: every decoder returns the message
CleanEv(e) == /\ Chk(~e.raised /\ e.out = e.msg, "clean_llrs_decode_to_the_message")
              /\ UNCHANGED <<rank, cur>>

\* arbitrary LLRs: SC equals the textbook rule (ties at an information leaf excluded by the specification)
ScEv(e) == LET r == IF e.regime = "min_sum" THEN SCmin(e.llr, cur.mask, cur.fz, cur.il)
                    ELSE SCsum([j \in 1..Len(e.llr) |-> LR(e.llr[j])], cur.mask, cur.fz, cur.il)
           IN /\ Chk(r.tie \/ (~e.raised /\ e.out = Extract(r.u, cur.mask)), "sc_output_equals_textbook_decision_rule")
              /\ (IF r.tie THEN PrintT(<<"TIE", e.tid>>) ELSE TRUE)
              /\ UNCHANGED <<rank, cur>>

Next == /\ l <= Len(TLog)
        /\ LET e == TLog[l] IN
             CASE e.ev = "Rank" -> RankEv(e)
               [] e.ev = "Code" -> CodeEv(e)
               [] e.ev = "Enc" -> EncEv(e)
               [] e.ev = "Clean" -> CleanEv(e)
               [] e.ev = "Sc" -> ScEv(e)
               [] OTHER -> Chk(FALSE, "unknown_event") /\ UNCHANGED <<rank, cur>>
        /\ l' = l + 1
Spec == Init /\ [][Next]_vars
AllConsumed == TLCGet("stats").diameter = Len(TLog) + 1
=============================================================================
