------------------------------ MODULE SoftDecoding ------------------------------
(***************************************************************************)
(* Soft-input decoding as exact arithmetic:                                 *)
(*  - Wagner / soft maximum likelihood on integer reliabilities;            *)
(*  - exact bitwise posteriors on the ln 2 lattice (LLR = a ln 2 <=>        *)
(*    likelihood ratio 2^a), by marginalisation over the code;              *)
(*  - the flooding min-sum decoder (sign product x minimum magnitude,       *)
(*    scaled by alpha = an/ad and offset by beta) on integers.              *)
(* A parity-check matrix is a sequence of rows, each a 0/1 sequence.        *)
(***************************************************************************)
EXTENDS Naturals, Integers, Sequences, FiniteSets, TLC

Sgn(x) == IF x > 0 THEN 1 ELSE IF x < 0 THEN -1 ELSE 0
Abs(x) == IF x < 0 THEN -x ELSE x
Words(n) == [1..n -> {0, 1}]
Parity(w, S) == Cardinality({ j \in S : w[j] = 1 }) % 2
IsCodeword(H, w) == \A i \in 1..Len(H) : Parity(w, { j \in 1..Len(w) : H[i][j] = 1 }) = 0
Code(H, n) == { w \in Words(n) : IsCodeword(H, w) }

\* correlation of a 0/1 word with a real vector: sum (1 - 2 c_j) y_j
RECURSIVE Corr(_, _, _)
Corr(c, y, j) == IF j > Len(y) THEN 0 ELSE (1 - 2 * c[j]) * y[j] + Corr(c, y, j + 1)
\* soft ML over the single-parity-check code of length n
EvenWords(n) == { w \in Words(n) : Parity(w, 1..n) = 0 }
MLScore(y) == LET S == { Corr(c, y, 1) : c \in EvenWords(Len(y)) } IN CHOOSE m \in S : \A s \in S : s <= m
MLUnique(y) == LET m == MLScore(y) IN Cardinality({ c \in EvenWords(Len(y)) : Corr(c, y, 1) = m }) = 1

\* exact posterior ratio of bit i: P(x_i = 0 | y) / P(x_i = 1 | y) = <<num, den>>, weights 2^a for the favoured value
W(a, v) == IF v = 0 THEN (IF a >= 0 THEN 2 ^ a ELSE 1) ELSE (IF a >= 0 THEN 1 ELSE 2 ^ (-a))
RECURSIVE Weight(_, _, _)
Weight(c, a, j) == IF j > Len(a) THEN 1 ELSE W(a[j], c[j]) * Weight(c, a, j + 1)
RECURSIVE SumW(_, _)
SumW(S, a) == IF S = {} THEN 0 ELSE LET c == CHOOSE c \in S : TRUE IN Weight(c, a, 1) + SumW(S \ {c}, a)
Posterior(C, a, i) == << SumW({ c \in C : c[i] = 0 }, a), SumW({ c \in C : c[i] = 1 }, a) >>
\* a Tanner graph is cycle-free iff it is a forest: edges = nodes - components; here via repeated leaf removal
Edges(H) == { <<i, j>> \in (1..Len(H)) \X (1..Len(H[1])) : H[i][j] = 1 }
RECURSIVE Prune(_)
Prune(E) == LET leafEdges == { e \in E : Cardinality({ f \in E : f[1] = e[1] }) = 1 \/ Cardinality({ f \in E : f[2] = e[2] }) = 1 }
            IN IF leafEdges = {} THEN E ELSE Prune(E \ leafEdges)
CycleFree(H) == Prune(Edges(H)) = {}

\* ------------------------------------------------------------------ flooding min-sum on integers
\* vc / cv are functions on edges; one iteration: vc = input + sum of other cv; cv = alpha * sign product * min |vc| of the others, offset by beta
MinOf(S) == CHOOSE m \in S : \A s \in S : m <= s
RECURSIVE SumOver(_, _)
SumOver(S, f) == IF S = {} THEN 0 ELSE LET e == CHOOSE e \in S : TRUE IN f[e] + SumOver(S \ {e}, f)
RECURSIVE ProdSgn(_, _)
ProdSgn(S, f) == IF S = {} THEN 1 ELSE LET e == CHOOSE e \in S : TRUE IN Sgn(f[e]) * ProdSgn(S \ {e}, f)
Scale(v, an, ad) == IF v >= 0 THEN (v * an) \div ad ELSE -(((-v) * an) \div ad)
\* the offset shrinks a magnitude towards zero and stops there: a message weaker than the offset carries nothing (it never changes sign)
Offs(v, beta) == IF Abs(v) <= beta THEN 0 ELSE v - Sgn(v) * beta
CheckUpdate(E, vc, an, ad, beta) ==
    [e \in E |-> LET others == { f \in E : f[1] = e[1] /\ f # e } IN
                 IF others = {} THEN 0
                 ELSE Offs(Scale(ProdSgn(others, vc) * MinOf({ Abs(vc[f]) : f \in others }), an, ad), beta)]
VarUpdate(E, cv, y) == [e \in E |-> y[e[2]] + SumOver({ f \in E : f[2] = e[2] /\ f # e }, cv)]
Marginal(E, cv, y) == [j \in 1..Len(y) |-> y[j] + SumOver({ f \in E : f[2] = j }, cv)]
RECURSIVE MinSumIter(_, _, _, _, _, _, _)
MinSumIter(E, cv, y, t, an, ad, beta) ==
    IF t = 0 THEN cv ELSE MinSumIter(E, CheckUpdate(E, VarUpdate(E, cv, y), an, ad, beta), y, t - 1, an, ad, beta)
MinSumSoft(H, y, iters, an, ad, beta) == LET E == Edges(H) IN Marginal(E, MinSumIter(E, [e \in E |-> 0], y, iters, an, ad, beta), y)
\* the sub-offset corner (alpha |min| <= beta at some check node in some iteration): reported for information - it used to be exempted, which hid a
\* sign flip in the implementation (DESIGN.md section 10); the rule above defines it and the clause now applies there too
RECURSIVE OffsetSafe(_, _, _, _, _, _, _)
OffsetSafe(E, cv, y, t, an, ad, beta) ==
    IF t = 0 THEN TRUE
    ELSE LET vc == VarUpdate(E, cv, y)
             ok == \A e \in E : LET others == { f \in E : f[1] = e[1] /\ f # e } IN
                                others = {} \/ Abs(Scale(MinOf({ Abs(vc[f]) : f \in others }), an, ad)) > beta
         IN ok /\ OffsetSafe(E, CheckUpdate(E, vc, an, ad, beta), y, t - 1, an, ad, beta)
=============================================================================
