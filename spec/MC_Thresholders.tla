---- MODULE MC_Thresholders ----
EXTENDS Thresholders
====
