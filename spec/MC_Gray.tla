-------------------------------- MODULE MC_Gray --------------------------------
EXTENDS Gray
CONSTANT Bits
VARIABLE n
Init == n \in 0..(2 ^ Bits - 1)
Next == UNCHANGED n
Spec == Init /\ [][Next]_n
Inverse1 == G2B(B2G(n)) = n
Inverse2 == B2G(G2B(n)) = n
Adjacent == Pop(B2G(n) ^^ B2G(n + 1)) = 1
LimbsAgree == B2GL(<<n, 0>>) = <<B2G(n), 0>> /\ B2GL(<<n, n>>)[2] = B2G(n)
             /\ PopL(XorL(B2GL(<<1073741823 - (n % 7), n>>), B2GL(SuccL(<<1073741823 - (n % 7), n>>)))) = 1
=============================================================================
