--------------------------------- MODULE NoiseLaw ---------------------------------
(***************************************************************************)
(* The additive-noise laws of C07 in centi-dB integers (cdB = round(1000    *)
(* log10 P)): every SNR relation becomes an additive identity.  Bands: the  *)
(* sample power of N i.i.d. noise samples has relative standard deviation   *)
(* sqrt((kurtosis - 1) / N): sqrt(2/N) Gaussian, sqrt(5/N) Laplacian; 7     *)
(* sigma expressed in centi-dB (1 cdB = 0.23026 % in power).                *)
(***************************************************************************)
EXTENDS Naturals, Integers, TLC
RECURSIVE ISqrt(_, _)
ISqrt(nn, g) == IF g * g <= nn /\ (g + 1) * (g + 1) > nn THEN g ELSE ISqrt(nn, (g + nn \div g) \div 2)
Sqrt(nn) == IF nn = 0 THEN 0 ELSE ISqrt(nn, IF nn > 46340 THEN 46340 ELSE nn)      \* the start value must not overflow when squared
\* 7 sigma relative = 7 sqrt(c / N); in cdB: / 0.0023026  ->  3040 * sqrt(c / N);  c = 2 (gaussian), 5 (laplacian), 2 (other)
PowerBandCdb(N, family) == LET c == IF family = "laplacian" THEN 5 ELSE 2 IN (3040 * Sqrt(c * 10000)) \div (Sqrt(N) * 100) + 2
\* |mean| / sqrt(P) <= 7 / sqrt(N), in ppm of the noise standard deviation
MeanBandPpm(N) == 7000000 \div Sqrt(N) + 1
\* additive SNR law and the conversion utilities
SnrLaw(kind, a, b) == CASE kind = "snr_from_powers" -> a - b            \* SNR = signal - noise
                        [] kind = "noise_from_snr"   -> a - b            \* noise = signal - SNR
                        [] kind = "identity"         -> a                \* dB -> linear -> dB round trip
                        [] OTHER -> 0
=============================================================================
