----------------------------- MODULE Trace_MetricsRepo -----------------------------
(***************************************************************************)
(* Validates the BER / BLER call histories that the REPOSITORY'S OWN TESTS  *)
(* execute (recorded by kv/repotrace_plugin.py without editing the repo).   *)
(* Per metric object the state is the exact pair (units seen, units in      *)
(* error); a unit is a bit for BER and a block of B consecutive elements of *)
(* a flattened batch item for BLER (B = 0: the whole item).  An object      *)
(* becomes untracked when one of its inputs was too large to log.           *)
(***************************************************************************)
EXTENDS Naturals, Integers, Sequences, FiniteSets, TLC, Json, IOUtils
TLog == ndJsonDeserialize(IOEnv.TRACE_FILE)
VARIABLES l, acc       \* acc[oid] = [kind, B, total, err, tracked]
vars == <<l, acc>>
Chk(c, clause) == IF c THEN TRUE ELSE PrintT(<<"MISMATCH", TLog[l].tid, l, clause>>)
RECURSIVE SumSeq(_)
SumSeq(s) == IF s = <<>> THEN 0 ELSE Head(s) + SumSeq(Tail(s))
\* units of one row: bits (BER) or blocks (BLER)
RowUnits(kind, B, row) ==
    IF kind = "ber" THEN <<Len(row), SumSeq(row)>>
    ELSE LET bb == IF B = 0 THEN Len(row) ELSE B
             nb == IF bb = 0 THEN 0 ELSE Len(row) \div bb
             bad == Cardinality({ j \in 1..nb : \E i \in ((j - 1) * bb + 1)..(j * bb) : row[i] = 1 })
         IN <<nb, bad>>
RECURSIVE MaskUnits(_, _, _, _)
MaskUnits(kind, B, mask, i) == IF i > Len(mask) THEN <<0, 0>>
                               ELSE LET a == RowUnits(kind, B, mask[i])  b == MaskUnits(kind, B, mask, i + 1) IN <<a[1] + b[1], a[2] + b[2]>>
Rate5(err, total) == IF total = 0 THEN 0 ELSE (err * 100000 + total \div 2) \div total
Near(a, b) == a - b <= 1 /\ b - a <= 1
Known(o) == o \in DOMAIN acc
Init == l = 1 /\ acc = <<>>
New(e) == acc' = [o \in (DOMAIN acc) \cup {e.oid} |-> IF o = e.oid THEN [kind |-> e.kind, B |-> e.B, total |-> 0, err |-> 0, tracked |-> TRUE] ELSE acc[o]]
Update(e) == IF ~Known(e.oid) THEN UNCHANGED acc
             ELSE LET a == acc[e.oid] IN
                  IF ~a.tracked \/ ~e.tracked THEN acc' = [acc EXCEPT ![e.oid].tracked = FALSE]
                  ELSE LET u == MaskUnits(a.kind, a.B, e.mask, 1) IN
                       /\ Chk(e.c_total < 0 \/ e.c_total = a.total + u[1], "accumulated_unit_count_is_exact")
                       /\ Chk(e.c_err < 0 \/ e.c_err = a.err + u[2], "accumulated_error_count_is_exact")
                       /\ acc' = [acc EXCEPT ![e.oid].total = a.total + u[1], ![e.oid].err = a.err + u[2]]
Compute(e) == /\ (IF Known(e.oid) /\ acc[e.oid].tracked
                  THEN Chk(Near(e.v5, Rate5(acc[e.oid].err, acc[e.oid].total)), "compute_returns_the_exact_accumulated_fraction") ELSE TRUE)
              /\ UNCHANGED acc
Reset(e) == IF ~Known(e.oid) THEN UNCHANGED acc
            ELSE /\ Chk((e.c_total <= 0) /\ (e.c_err <= 0), "reset_restores_the_initial_state")
                 /\ acc' = [acc EXCEPT ![e.oid].total = 0, ![e.oid].err = 0, ![e.oid].tracked = TRUE]
Forward(e) == /\ (IF Known(e.oid) /\ e.tracked
                  THEN LET a == acc[e.oid]  u == MaskUnits(a.kind, a.B, e.mask, 1) IN
                       Chk(Near(e.v5, Rate5(u[2], u[1])), "one_shot_value_is_the_exact_fraction")
                  ELSE TRUE)
              /\ UNCHANGED acc
Next == /\ l <= Len(TLog)
        /\ LET e == TLog[l] IN
             CASE e.ev = "New" -> New(e) [] e.ev = "Update" -> Update(e) [] e.ev = "Compute" -> Compute(e)
               [] e.ev = "Reset" -> Reset(e) [] e.ev = "Forward" -> Forward(e) [] OTHER -> Chk(FALSE, "unknown_event") /\ UNCHANGED acc
        /\ l' = l + 1
Spec == Init /\ [][Next]_vars
AllConsumed == TLCGet("stats").diameter = Len(TLog) + 1
=============================================================================
