----------------------------- MODULE BinaryChannels -----------------------------
(***************************************************************************)
(* Binary symmetric, Z and erasure channels as per-symbol transition        *)
(* relations.  Symbol values are logged doubled (x2 = 2 * value) so that    *)
(* the alphabets {0, 1} -> {0, 2}, {-1, +1} -> {-2, 2} and fractional       *)
(* erasure symbols stay integral.  `zero` / `one` are the two symbols of    *)
(* the alphabet in the channel's own reading (bipolar: -1 is bit 0).        *)
(***************************************************************************)
EXTENDS Naturals, Integers, Sequences, FiniteSets, TLC
Zero(alpha) == IF alpha = "binary" THEN 0 ELSE -2
One(alpha) == 2
Alphabet(alpha) == {Zero(alpha), One(alpha)}
Flip(alpha, x) == IF x = One(alpha) THEN Zero(alpha) ELSE One(alpha)

\* support of the transition law
Allowed(ch, alpha, er2, x, y) ==
    /\ x \in Alphabet(alpha)
    /\ CASE ch = "bsc" -> y \in {x, Flip(alpha, x)}
         [] ch = "z"   -> (x = Zero(alpha) /\ y = x) \/ (x = One(alpha) /\ y \in {x, Zero(alpha)})
         [] ch = "bec" -> y \in {x, er2}
\* the deterministic extremes
Extreme(ch, alpha, er2, x) == CASE ch = "bsc" -> Flip(alpha, x) [] ch = "z" -> Zero(alpha) [] ch = "bec" -> er2
\* is the pair (x, y) an "event" (flip / erasure) of the channel
IsEvent(ch, alpha, er2, x, y) == CASE ch = "bsc" -> y # x [] ch = "z" -> (x = One(alpha) /\ y # x) [] ch = "bec" -> y = er2 /\ (er2 # x)
\* symbols on which an event can be observed at all
Eligible(ch, alpha, er2, x) == CASE ch = "bsc" -> TRUE [] ch = "z" -> x = One(alpha) [] ch = "bec" -> er2 # x

Abs(v) == IF v < 0 THEN -v ELSE v
\* binomial band: |k - n p| <= 7 sigma, p = pn / D, all in 32-bit integer arithmetic (n <= 2 * 10^6, D = 1000)
Mean(nn, pn, D) == (nn * pn) \div D
Var(nn, pn, D) == (Mean(nn, pn, D) * (D - pn)) \div D
InBand(k, nn, pn, D, factor) == LET dev == Abs(k - Mean(nn, pn, D)) IN dev <= 40000 /\ dev * dev <= factor * (Var(nn, pn, D) + 1) + 2 * dev + 50   \* dev > 40000 is far outside any band (and would overflow)
=============================================================================
