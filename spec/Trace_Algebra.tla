----------------------------- MODULE Trace_Algebra -----------------------------
(***************************************************************************)
(* Validates results recorded from kaira.models.fec.algebra against the     *)
(* Algebra specification.  Ring laws are checked as laws (a = q.b + r with  *)
(* deg r < deg b; the gcd divides both and is the Bezout combination; lcm x *)
(* gcd = product), field results against the spec's arithmetic with the     *)
(* modulus the implementation publishes.                                    *)
(***************************************************************************)
EXTENDS Algebra, Json, IOUtils
TLog == ndJsonDeserialize(IOEnv.TRACE_FILE)
VARIABLE l
Chk(c, clause) == IF c THEN TRUE ELSE PrintT(<<"MISMATCH", TLog[l].tid, l, clause>>)

Poly(e) ==
    /\ Chk(e.mul = PMul(e.a, e.b), "product_is_carryless_product")
    /\ Chk(e.b = 0 \/ (PMul(e.q, e.b) ^^ e.r = e.a /\ Deg(e.r) < Deg(e.b)), "euclidean_division_a_eq_qb_plus_r")
    /\ Chk(LET x == Bezout(e.a, e.b) IN
             /\ e.gcd = x[1]
             /\ (e.gcd # 0 => PMod(e.a, e.gcd) = 0 /\ PMod(e.b, e.gcd) = 0)
             /\ PMul(x[2], e.a) ^^ PMul(x[3], e.b) = e.gcd, "gcd_divides_both_and_is_a_combination")
    /\ Chk((e.a = 0 \/ e.b = 0) \/ PMul(e.lcm, e.gcd) = PMul(e.a, e.b), "lcm_times_gcd_is_product")
    /\ Chk(e.da = PDeriv(e.a, 0), "formal_derivative")
    /\ Chk(e.dega = Deg(e.a), "degree")

\* large operands: lists of exponents
SPoly(e) ==
    LET A == { e.a[i] : i \in 1..Len(e.a) }   B == { e.b[i] : i \in 1..Len(e.b) }
        Q == { e.q[i] : i \in 1..Len(e.q) }   R == { e.r[i] : i \in 1..Len(e.r) }
        G == { e.gcd[i] : i \in 1..Len(e.gcd) }  M == { e.mul[i] : i \in 1..Len(e.mul) }
    IN /\ Chk(M = SMul(A, B), "product_is_carryless_product")
       /\ Chk(SXor(SMul(Q, B), R) = A /\ SDeg(R) < SDeg(B), "euclidean_division_a_eq_qb_plus_r")
       /\ Chk(G # {} /\ SMod(A, G) = {} /\ SMod(B, G) = {}, "gcd_divides_both_and_is_a_combination")

FieldOK(e) ==
    LET m == e.m   md == e.mod IN
    /\ Chk(e.add = e.a ^^ e.b, "field_addition_is_xor")
    /\ Chk(e.mul = FMul(e.a, e.b, md, m), "field_product")
    /\ Chk(e.pow = FPow(e.a, e.e, md, m), "field_power")
    /\ Chk(e.a = 0 \/ (e.inv = FInv(e.a, md, m) /\ FMul(e.a, e.inv, md, m) = 1), "field_inverse")
    /\ Chk(e.trace = FTrace(e.a, md, m), "field_trace")
    /\ Chk({ e.conj[i] : i \in 1..Len(e.conj) } = Conjugates(e.a, md, m), "conjugates_are_the_frobenius_orbit")
    /\ Chk(e.minpoly < 0 \/ (e.minpoly = MinPoly(e.a, md, m) /\ EvalAt(e.minpoly, e.a, md, m) = 0), "minimal_polynomial_is_product_over_conjugates_and_vanishes")
    /\ Chk(e.minpoly < 0 \/ Deg(e.minpoly) > 10 \/ Irreducible(e.minpoly), "minimal_polynomial_irreducible")
    /\ Chk(e.evalp < 0 \/ e.evalv = EvalAt(e.evalp, e.a, md, m), "polynomial_evaluation_at_field_element")
Field(e) == IF e.raised THEN Chk(FALSE, "field_operation_raised") ELSE FieldOK(e)

Init == l = 1
Next == /\ l <= Len(TLog)
        /\ LET e == TLog[l] IN
             CASE e.ev = "Poly" -> Poly(e)
               [] e.ev = "SPoly" -> SPoly(e)
               [] e.ev = "Field" -> Field(e)
               [] OTHER -> Chk(FALSE, "unknown_event")
        /\ l' = l + 1
Spec == Init /\ [][Next]_l
AllConsumed == TLCGet("stats").diameter = Len(TLog) + 1
=============================================================================
