------------------------------ MODULE Trace_Purity ------------------------------
(* Validates call histories recorded from real kaira components against the purity law: `seen` maps a member (block content id) to the   *)
(* result id first observed for it; every later observation - other batch, position, layout, object of the same class, repeated call -   *)
(* must agree, the input must be unchanged, and a call may raise (reject the layout) but never answer with a different value.            *)
EXTENDS Naturals, Sequences, FiniteSets, TLC, Json, IOUtils
TLog == ndJsonDeserialize(IOEnv.TRACE_FILE)
VARIABLES l, seen
vars == <<l, seen>>
Chk(c, clause) == IF c THEN TRUE ELSE PrintT(<<"MISMATCH", TLog[l].tid, l, clause>>)
Init == l = 1 /\ seen = <<>>
Component(e) == seen' = [m \in 1..e.pool |-> 0]
Call(e) ==
    /\ Chk(e.raised \/ Len(e.results) = Len(e.members), "one_result_per_member")
    /\ Chk(e.raised \/ Len(e.results) # Len(e.members) \/ \A i \in 1..Len(e.members) : seen[e.members[i]] = 0 \/ seen[e.members[i]] = e.results[i],
           "result_depends_on_the_member_only")
    /\ Chk(e.raised \/ Len(e.results) # Len(e.members) \/ \A p, q \in 1..Len(e.members) : e.members[p] = e.members[q] => e.results[p] = e.results[q],
           "equal_members_get_equal_results_within_a_batch")
    /\ Chk(e.input_unchanged, "input_tensor_not_modified")
    /\ Chk(e.earlier_result_unchanged, "result_of_an_earlier_call_not_overwritten")      \* a returned tensor is the caller's, not a buffer of the component
    /\ Chk(~e.raised \/ e.may_reject, "documented_single_sample_call_raised")
    /\ seen' = IF e.raised \/ Len(e.results) # Len(e.members) THEN seen
               ELSE [m \in 1..Len(seen) |-> IF seen[m] # 0 THEN seen[m]
                                             ELSE IF \E i \in 1..Len(e.members) : e.members[i] = m
                                                  THEN e.results[CHOOSE i \in 1..Len(e.members) : e.members[i] = m] ELSE 0]
Next == /\ l <= Len(TLog)
        /\ LET e == TLog[l] IN
             CASE e.ev = "Component" -> Component(e)
               [] e.ev = "Call" -> Call(e)
               [] OTHER -> Chk(FALSE, "unknown_event") /\ UNCHANGED seen
        /\ l' = l + 1
Spec == Init /\ [][Next]_vars
AllConsumed == TLCGet("stats").diameter = Len(TLog) + 1
=============================================================================
