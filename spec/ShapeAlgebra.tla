------------------------------- MODULE ShapeAlgebra -------------------------------
(***************************************************************************)
(* Spatial size arithmetic of convolutional encoders / decoders (C19):      *)
(* a layer is <<kind, kernel, stride, padding, output_padding>> with kind   *)
(* "conv" or "tconv"; an architecture is a sequence of layers.              *)
(***************************************************************************)
EXTENDS Naturals, Integers, Sequences, FiniteSets, TLC
ConvOut(h, k, s, p) == ((h + 2 * p - k) \div s) + 1
TConvOut(h, k, s, p, op) == (h - 1) * s - 2 * p + k + op
LayerOut(h, L) == IF L[1] = "conv" THEN ConvOut(h, L[2], L[3], L[4]) ELSE TConvOut(h, L[2], L[3], L[4], L[5])
RECURSIVE NetOut(_, _)
NetOut(h, layers) == IF layers = <<>> THEN h ELSE NetOut(LayerOut(h, Head(layers)), Tail(layers))

\* the bundled architectures (spatial layers only)
BourtEnc == << <<"conv", 5, 2, 2, 0>>, <<"conv", 5, 2, 2, 0>>, <<"conv", 5, 1, 2, 0>>, <<"conv", 5, 1, 2, 0>>, <<"conv", 5, 1, 2, 0>> >>
BourtDec == << <<"tconv", 5, 1, 2, 0>>, <<"tconv", 5, 1, 2, 0>>, <<"tconv", 5, 1, 2, 0>>, <<"tconv", 5, 2, 2, 1>>, <<"tconv", 5, 2, 2, 1>> >>
KurkaEnc == << <<"conv", 9, 2, 4, 0>>, <<"conv", 5, 2, 2, 0>>, <<"conv", 5, 1, 2, 0>>, <<"conv", 5, 1, 2, 0>>, <<"conv", 5, 1, 2, 0>> >>
KurkaDec == << <<"tconv", 5, 1, 2, 0>>, <<"tconv", 5, 1, 2, 0>>, <<"tconv", 5, 1, 2, 0>>, <<"tconv", 5, 2, 2, 1>>, <<"tconv", 9, 2, 4, 1>> >>
\* an image size is admissible for a pair when the decoder restores it
Admissible(enc, dec, h) == NetOut(NetOut(h, enc), dec) = h
\* filter count for a bandwidth ratio rn/rd with `layers` stride-2 layers: latent elements / input elements = rn/rd (twice that for complex symbols)
NumFiltersOK(c, layers, rn, rd, channels, cplx) == c * rd = channels * (4 ^ layers) * rn * (IF cplx THEN 2 ELSE 1)
\* reachability in a directed graph given as a set of edges <<from, to>>
RECURSIVE Reach(_, _)
Reach(front, E) == LET nxt == front \cup { e[2] : e \in { f \in E : f[1] \in front } } IN IF nxt = front THEN front ELSE Reach(nxt, E)
=============================================================================
