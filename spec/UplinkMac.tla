-------------------------------- MODULE UplinkMac --------------------------------
(***************************************************************************)
(* kaira.channels.UplinkMACChannel as a state machine.  State: per-user     *)
(* gains (in quarters) and the interference scale s = sqrt(p / (N-1)) (in   *)
(* halves; the driver only uses interference powers p for which s is 0,     *)
(* 1/2 or 1).  Send passes user i's signal through user i's channel (an     *)
(* identity that records its calls), applies the gain, adds to every user   *)
(* s times the sum of the OTHER users' faded signals, and sums:             *)
(*      y = sum_i ( g_i x_i + s * sum_{j # i} g_j x_j )                      *)
(* All values are integers in units of 1/8.                                 *)
(***************************************************************************)
EXTENDS Naturals, Integers, Sequences, FiniteSets, TLC
CONSTANTS N, Gains, Scales, Signals, MaxLen, Export, Design
VARIABLES gain, sc, hist
vars == <<gain, sc, hist>>
Users == 1..N
RECURSIVE SumTo(_, _)
SumTo(f, n) == IF n = 0 THEN 0 ELSE f[n] + SumTo(f, n - 1)
Faded(x) == [i \in Users |-> gain[i] * x[i]]                       \* quarters
WithInterference(x) == LET f == Faded(x) IN
    [i \in Users |-> 2 * f[i] + sc * (SumTo(f, N) - f[i])]          \* eighths
\* a named wrong design for the vacuity guard: interference from ALL users including the user itself
WithSelfInterference(x) == LET f == Faded(x) IN [i \in Users |-> 2 * f[i] + sc * SumTo(f, N)]
Received(x) == SumTo(IF Design = "self" THEN WithSelfInterference(x) ELSE WithInterference(x), N)
Init == gain = [i \in Users |-> 4] /\ sc = 0 /\ hist = <<>>
UpdateGain(i, g) == gain' = [gain EXCEPT ![i] = g] /\ UNCHANGED sc /\ hist' = Append(hist, <<"gain", i, g, <<>>, 0>>)
UpdateInterference(s) == sc' = s /\ UNCHANGED gain /\ hist' = Append(hist, <<"interference", 0, s, <<>>, 0>>)
Send(x) == UNCHANGED <<gain, sc>> /\ hist' = Append(hist, <<"send", 0, 0, x, Received(x)>>)
Next == /\ Len(hist) < MaxLen
        /\ \/ \E i \in Users, g \in Gains : UpdateGain(i, g)
           \/ \E s \in Scales : UpdateInterference(s)
           \/ \E x \in [Users -> Signals] : Send(x)
Spec == Init /\ [][Next]_vars
\* closed form: every user's faded signal is counted once directly and (N-1) times as interference
ClosedForm == \A j \in 1..Len(hist) : hist[j][1] = "send" =>
    LET x == hist[j][4]
        g == [i \in Users |-> LET ups == { k \in 1..(j - 1) : hist[k][1] = "gain" /\ hist[k][2] = i } IN
                              IF ups = {} THEN 4 ELSE hist[CHOOSE k \in ups : \A m \in ups : m <= k][3]]
        ss == LET ups == { k \in 1..(j - 1) : hist[k][1] = "interference" } IN IF ups = {} THEN 0 ELSE hist[CHOOSE k \in ups : \A m \in ups : m <= k][3]
    IN hist[j][5] = (2 + ss * (N - 1)) * SumTo([i \in Users |-> g[i] * x[i]], N)
\* superposition: silent users contribute nothing
SilentUsers == \A j \in 1..Len(hist) : (hist[j][1] = "send" /\ \A i \in Users : hist[j][4][i] = 0) => hist[j][5] = 0
ExportInv == (Export /\ Len(hist) = MaxLen /\ hist[MaxLen][1] = "send") => PrintT(<<"UHIST", hist>>)
=============================================================================
