-------------------------------- MODULE Composite --------------------------------
(***************************************************************************)
(* kaira.metrics.CompositeMetric and kaira.losses.CompositeLoss as one      *)
(* state machine with two flavours.  State: the ordered member names and    *)
(* the weight table, a sequence of <<name, num, den>> (exact rationals in   *)
(* lowest terms, den > 0).  A member without a table entry is carried but   *)
(* does not contribute to the combined value.                               *)
(*                                                                           *)
(*   Construct(ms, ws)   ws = <<>>: every member gets weight 1; otherwise   *)
(*                       only the listed members; then divide by the sum.   *)
(*   Add(n, w)  metric flavour, w = <<>>  : every member gets 1 / #members  *)
(*              metric flavour, w given   : old * S / (S + w), new w/(S+w)  *)
(*              loss flavour              : old * (1 - w) / S,   new w      *)
(*              (S = current sum of the table) ; a name already present     *)
(*              raises and changes nothing.                                 *)
(*   Eval(v)    sum over the table of weight * v[name].                     *)
(***************************************************************************)
EXTENDS Naturals, Integers, Sequences, FiniteSets, TLC
CONSTANTS Names, InitWeights, AddWeights, Values, Flavour, MaxLen, Export, Design
\* InitWeights: positive integers; AddWeights: rationals <<num, den>>; Design = "code" or, for the vacuity guard, "norescale"
VARIABLES members, table, hist
vars == <<members, table, hist>>

Abs(x) == IF x < 0 THEN -x ELSE x
RECURSIVE Gcd(_, _)
Gcd(a, b) == IF b = 0 THEN a ELSE Gcd(b, a % b)
Norm(q) == IF q[1] = 0 THEN <<0, 1>>
           ELSE LET s == IF q[2] < 0 THEN -1 ELSE 1
                    g == Gcd(Abs(q[1]), Abs(q[2]))
                IN <<(s * q[1]) \div g, (s * q[2]) \div g>>
RAdd(a, b) == Norm(<<a[1] * b[2] + b[1] * a[2], a[2] * b[2]>>)
RSub(a, b) == Norm(<<a[1] * b[2] - b[1] * a[2], a[2] * b[2]>>)
RMul(a, b) == Norm(<<a[1] * b[1], a[2] * b[2]>>)
RDiv(a, b) == Norm(<<a[1] * b[2], a[2] * b[1]>>)           \* b # 0
One == <<1, 1>>
Zero == <<0, 1>>
W(i) == <<table[i][2], table[i][3]>>
RECURSIVE SumTable(_, _)
SumTable(t, n) == IF n = 0 THEN Zero ELSE RAdd(<<t[n][2], t[n][3]>>, SumTable(t, n - 1))
Total == SumTable(table, Len(table))
InMembers(n) == \E i \in DOMAIN members : members[i] = n
Scaled(t, f) == [i \in DOMAIN t |-> LET q == RMul(<<t[i][2], t[i][3]>>, f) IN <<t[i][1], q[1], q[2]>>]
RECURSIVE EvalTable(_, _, _)
EvalTable(t, v, n) == IF n = 0 THEN Zero ELSE RAdd(RMul(<<t[n][2], t[n][3]>>, <<v[t[n][1]], 1>>), EvalTable(t, v, n - 1))

Init == members = <<>> /\ table = <<>> /\ hist = <<>>

\* history entries: <<op, names, weight-argument, raised, table afterwards, value>>
Construct(ms, ws) ==
    /\ hist = <<>>
    /\ members' = ms
    /\ LET raw == IF ws = <<>> THEN [i \in DOMAIN ms |-> <<ms[i], 1, 1>>] ELSE [i \in DOMAIN ws |-> <<ws[i][1], ws[i][2], 1>>]
           tot == SumTable(raw, Len(raw))
       IN table' = Scaled(raw, RDiv(One, tot))
    /\ hist' = <<<<"construct", ms, ws, FALSE, table', Zero>>>>

Add(n, w) ==
    /\ hist # <<>>
    /\ IF InMembers(n)
       THEN UNCHANGED <<members, table>>
       ELSE /\ members' = Append(members, n)
            /\ table' =
                 IF Flavour = "metric" /\ w = <<>>
                 THEN LET k == Len(members) + 1 IN [i \in 1..k |-> <<members'[i], 1, k>>]
                 ELSE IF Flavour = "metric"
                 THEN LET S == Total
                          T == RAdd(S, w)
                          nw == RDiv(w, T)
                      IN Append(IF Design = "norescale" THEN table ELSE Scaled(table, RDiv(S, T)), <<n, nw[1], nw[2]>>)
                 ELSE LET S == Total
                          f == IF S[1] > 0 THEN RDiv(RSub(One, w), S) ELSE One
                      IN Append(IF Design = "norescale" THEN table ELSE Scaled(table, f), <<n, w[1], w[2]>>)
    /\ hist' = Append(hist, <<"add", <<n>>, w, InMembers(n), table', Zero>>)

Eval(v) ==
    /\ hist # <<>>
    /\ UNCHANGED <<members, table>>
    /\ hist' = Append(hist, <<"eval", [i \in DOMAIN members |-> v[members[i]]], <<>>, FALSE, table, EvalTable(table, v, Len(table))>>)

\* the driver's constructions: every ordered pair / single of names, with no, full or partial initial weights
Constructions ==
    LET Seqs == { s \in UNION { [1..k -> Names] : k \in 1..2 } : \A i, j \in DOMAIN s : i # j => s[i] # s[j] }
    IN { <<ms, <<>>>> : ms \in Seqs }
       \cup UNION { { <<ms, [i \in DOMAIN ms |-> <<ms[i], f[i]>>]>> : f \in [DOMAIN ms -> InitWeights] } : ms \in Seqs }
       \cup { <<ms, <<<<ms[1], a>>>>>> : ms \in { s \in Seqs : Len(s) = 2 }, a \in InitWeights }

Next == /\ Len(hist) < MaxLen
        /\ \/ \E c \in Constructions : Construct(c[1], c[2])
           \/ \E n \in Names, w \in (IF Flavour = "metric" THEN AddWeights \cup {<<>>} ELSE AddWeights) : Add(n, w)
           \/ \E v \in [Names -> Values] : Eval(v)
Spec == Init /\ [][Next]_vars

(***************************************************************************)
(* Properties                                                               *)
(***************************************************************************)
\* the table always sums to one (the documented normalisation), and lists only members, each at most once
WeightsSumToOne == table # <<>> => Total = One
TableKeysAreMembers == /\ \A i \in DOMAIN table : InMembers(table[i][1])
                       /\ \A i, j \in DOMAIN table : i # j => table[i][1] # table[j][1]
NoDuplicateMembers == \A i, j \in DOMAIN members : i # j => members[i] # members[j]
\* with non-negative weights the combined value is a convex combination of the contributing members' values
Convex == \A j \in 1..Len(hist) : (hist[j][1] = "eval" /\ hist[j][5] # <<>> /\ \A i \in DOMAIN hist[j][5] : hist[j][5][i][2] >= 0) =>
    LET t == hist[j][5]
        vals == { hist[j][2][CHOOSE m \in DOMAIN hist[j][2] : members[m] = t[i][1]] : i \in { i \in DOMAIN t : t[i][2] > 0 } }
        q == hist[j][6]
    IN vals # {} => \A lo, hi \in vals : ((\A x \in vals : lo <= x /\ x <= hi) => (lo * q[2] <= q[1] /\ q[1] <= hi * q[2]))
\* a rejected Add changes nothing
RejectedAddChangesNothing == \A j \in 2..Len(hist) : (hist[j][1] = "add" /\ hist[j][4]) => hist[j][5] = hist[j - 1][5]
\* loss flavour: the new member's weight is exactly the one asked for
LossWeightPreserved == Flavour = "loss" => \A j \in 1..Len(hist) : (hist[j][1] = "add" /\ ~hist[j][4]) =>
    LET t == hist[j][5] IN <<t[Len(t)][2], t[Len(t)][3]>> = Norm(hist[j][3])
\* metric flavour: the existing members keep their proportions when a weighted member is added
ProportionsKept == Flavour = "metric" => \A j \in 2..Len(hist) : (hist[j][1] = "add" /\ ~hist[j][4] /\ hist[j][3] # <<>>) =>
    LET o == hist[j - 1][5]
        t == hist[j][5]
    IN \A a, b \in DOMAIN o : o[a][2] * o[b][3] * t[b][2] * t[a][3] = o[b][2] * o[a][3] * t[a][2] * t[b][3]
ExportInv == (Export /\ Len(hist) = MaxLen /\ hist[MaxLen][1] = "eval") => PrintT(<<"CHIST", hist>>)
=============================================================================
