--------------------------------- MODULE GF2 ---------------------------------
(***************************************************************************)
(* GF(2) linear algebra on bit vectors.  A vector of length n is a sequence *)
(* of limbs, each a natural below 2^30; position j (0-based, the index in   *)
(* kaira's tensors) is bit (j % 30) of limb (j \div 30) + 1.  TLC integers  *)
(* are 32-bit, hence the limbs.  A matrix is a sequence of row vectors.     *)
(***************************************************************************)
EXTENDS Naturals, Sequences, FiniteSets, Bitwise, TLC

LB == 30
NLimbs(n) == ((n + LB - 1) \div LB)
ZeroV(L) == [i \in 1..L |-> 0]
IsZero(v) == \A i \in 1..Len(v) : v[i] = 0
VXor(a, b) == [i \in 1..Len(a) |-> a[i] ^^ b[i]]
VAnd(a, b) == [i \in 1..Len(a) |-> a[i] & b[i]]

RECURSIVE Pc(_)
Pc(x) == IF x = 0 THEN 0 ELSE (x % 2) + Pc(x \div 2)
PC8 == [x \in 0..255 |-> Pc(x)]
Wt1(x) == PC8[x % 256] + PC8[(x \div 256) % 256] + PC8[(x \div 65536) % 256] + PC8[x \div 16777216]
RECURSIVE WtFrom(_, _)
WtFrom(v, i) == IF i > Len(v) THEN 0 ELSE Wt1(v[i]) + WtFrom(v, i + 1)
Wt(v) == WtFrom(v, 1)
Dot(a, b) == Wt(VAnd(a, b)) % 2

Bit(v, j) == shiftR(v[(j \div LB) + 1], j % LB) % 2
Pow2(j) == 2 ^ j
Unit(L, j) == [i \in 1..L |-> IF i = (j \div LB) + 1 THEN Pow2(j % LB) ELSE 0]
FromBits(L, S) == [i \in 1..L |-> LET T == { j \in S : (j \div LB) + 1 = i } IN
                                   IF T = {} THEN 0 ELSE
                                   LET RECURSIVE Sum(_)
                                       Sum(U) == IF U = {} THEN 0 ELSE LET j == CHOOSE j \in U : TRUE IN Pow2(j % LB) + Sum(U \ {j})
                                   IN Sum(T)]
Support(v, n) == { j \in 0..(n - 1) : Bit(v, j) = 1 }

\* message m (a vector of k bits) times the matrix G (k rows): XOR of the selected rows
RECURSIVE EncFrom(_, _, _, _)
EncFrom(m, G, i, acc) == IF i > Len(G) THEN acc
                         ELSE EncFrom(m, G, i + 1, IF Bit(m, i - 1) = 1 THEN VXor(acc, G[i]) ELSE acc)
Enc(m, G, L) == EncFrom(m, G, 1, ZeroV(L))

\* syndrome of w with respect to H (r rows): bit (i-1) = <w, H[i]>, as a vector of r bits
Syn(w, H) == LET r == Len(H) IN
             [q \in 1..NLimbs(IF r = 0 THEN 1 ELSE r) |->
                 LET RECURSIVE S(_)
                     S(i) == IF i > r \/ i > q * LB THEN 0 ELSE Dot(w, H[i]) * Pow2((i - 1) % LB) + S(i + 1)
                 IN S((q - 1) * LB + 1)]

\* --- elimination with lowest-set-bit pivots ------------------------------------------------
Piv(v) == LET i == CHOOSE i \in 1..Len(v) : v[i] # 0 /\ \A j \in 1..(i - 1) : v[j] = 0
          IN <<i, v[i] - (v[i] & (v[i] - 1))>>
RECURSIVE Reduce(_, _)
Reduce(v, B) == IF IsZero(v) THEN v
                ELSE LET p == Piv(v) IN IF p \in DOMAIN B THEN Reduce(VXor(v, B[p]), B) ELSE v
RECURSIVE BasisFrom(_, _, _)
BasisFrom(rows, i, B) == IF i > Len(rows) THEN B
                         ELSE LET r == Reduce(rows[i], B) IN
                              BasisFrom(rows, i + 1, IF IsZero(r) THEN B ELSE (Piv(r) :> r) @@ B)
EmptyBasis == [p \in {} |-> <<>>]
Basis(rows) == BasisFrom(rows, 1, EmptyBasis)
Rank(rows) == Cardinality(DOMAIN Basis(rows))
InSpan(v, B) == IsZero(Reduce(v, B))

\* --- enumeration of a row space (k <= ~16) -------------------------------------------------
RECURSIVE SpanFrom(_, _, _)
SpanFrom(G, i, S) == IF i > Len(G) THEN S ELSE SpanFrom(G, i + 1, S \cup { VXor(c, G[i]) : c \in S })
Span(G, L) == SpanFrom(G, 1, {ZeroV(L)})
MinWt(S) == LET NZ == { c \in S : ~IsZero(c) } IN
            IF NZ = {} THEN 0 ELSE CHOOSE d \in { Wt(c) : c \in NZ } : \A c \in NZ : Wt(c) >= d

\* cyclic shift by one position of a length-n vector (position j -> j+1 mod n)
Rot(v, n) == FromBits(Len(v), { (j + 1) % n : j \in Support(v, n) })
Rev(v, n) == FromBits(Len(v), { n - 1 - j : j \in Support(v, n) })
=============================================================================
