------------------------------ MODULE MC_FlatFading ------------------------------
(* The block-index law of flat fading: sample i (0-based) belongs to coherence block i div T.  For every sequence length L and every coherence *)
(* time T in 1..L (divisors and non-divisors) the blocks are ceil(L/T) contiguous runs, all of length T except possibly the last.              *)
EXTENDS Naturals, FiniteSets, TLC
CONSTANT MaxL
VARIABLE lt
Init == lt \in { <<L, T>> : L \in 1..MaxL, T \in 1..MaxL }
Next == UNCHANGED lt
Spec == Init /\ [][Next]_lt
Block(i, T) == i \div T
PartitionLaw ==
    LET L == lt[1]  T == lt[2]
        ids == { Block(i, T) : i \in 0..(L - 1) }
        Run(b) == { i \in 0..(L - 1) : Block(i, T) = b }
    IN /\ Cardinality(ids) = (L + T - 1) \div T
       /\ \A b \in ids : \A i, j \in Run(b) : \A m \in 0..(L - 1) : (i <= m /\ m <= j) => m \in Run(b)        \* contiguous
       /\ \A b \in ids : (b < (L + T - 1) \div T - 1) => Cardinality(Run(b)) = T                           \* full blocks
       /\ Cardinality(Run((L - 1) \div T)) = IF L % T = 0 THEN T ELSE L % T                                \* last block
=============================================================================
