----------------------------- MODULE MC_ModemMemory -----------------------------
(***************************************************************************)
(* Modems with memory as state machines: DPSK (phase accumulator in units   *)
(* of pi/M, index k shifts by 2k, or 2k+1 for the offset variant), offset   *)
(* QPSK (one-symbol quadrature register) and pi/4-QPSK (rotation flag).     *)
(* Actions Reset, SetMode, Modulate(block).  A modulate call in training    *)
(* mode stores its final state (HavocMemory for later calls); in eval mode  *)
(* the memory does not move.  Invariant: after Reset and in eval mode, the  *)
(* round-trip law of C05 holds for every block - and the model shows it     *)
(* need not hold otherwise, so the checks never demand more.                *)
(***************************************************************************)
EXTENDS Naturals, Integers, Sequences, FiniteSets, TLC
CONSTANTS M, Offset, MaxBlock, MaxCalls
VARIABLES phase,     \* DPSK reference phase, units of pi/M, mod 2M
          qreg,      \* OQPSK delayed quadrature value: 0 (reset), 1 = +a, 2 = -a
          rot,       \* pi/4-QPSK: next symbol uses the rotated constellation
          mode, clean, calls, last
vars == <<phase, qreg, rot, mode, clean, calls, last>>
Shift(k) == 2 * k + Offset
Blocks == UNION { [1..n -> 0..(M - 1)] : n \in 1..MaxBlock }
Init == phase = 0 /\ qreg = 0 /\ rot = FALSE /\ mode = "eval" /\ clean = TRUE /\ calls = 0 /\ last = <<>>

\* transmitted DPSK phases for a block starting from reference r
RECURSIVE Tx(_, _)
Tx(blk, r) == IF blk = <<>> THEN <<>> ELSE LET p == (r + Shift(Head(blk))) % (2 * M) IN <<p>> \o Tx(Tail(blk), p)
\* differential detection of consecutive phases
Detect(tx) == [i \in 1..(Len(tx) - 1) |-> ((tx[i + 1] - tx[i] + 2 * M - Offset) % (2 * M)) \div 2]

Reset == phase' = 0 /\ qreg' = 0 /\ rot' = FALSE /\ clean' = TRUE /\ UNCHANGED <<mode, calls, last>>
SetMode(md) == mode' = md /\ UNCHANGED <<phase, qreg, rot, clean, calls, last>>
Modulate(blk) ==
    /\ calls < MaxCalls
    /\ calls' = calls + 1
    /\ LET tx == Tx(blk, phase) IN
         /\ last' = [blk |-> blk, det |-> Detect(tx), clean |-> clean, rotfirst |-> rot, q0 |-> qreg]
         /\ IF mode = "train"
            THEN phase' = tx[Len(tx)] /\ qreg' = 1 + (blk[Len(blk)] % 2) /\ rot' = (rot # (Len(blk) % 2 = 1)) /\ clean' = FALSE
            ELSE UNCHANGED <<phase, qreg, rot, clean>>
    /\ UNCHANGED mode
Next == Reset \/ (\E md \in {"train", "eval"} : SetMode(md)) \/ (\E blk \in Blocks : Modulate(blk))
Spec == Init /\ [][Next]_vars

\* C05 for differential schemes: all symbols but the reference are returned, whatever the memory was
DpskRoundTrip == last # <<>> => last.det = SubSeq(last.blk, 2, Len(last.blk))
\* after a reset (clean) the first symbol of pi/4-QPSK is unrotated and OQPSK's first Q value is the reset value
CleanStart == (last # <<>> /\ last.clean) => (last.rotfirst = FALSE /\ last.q0 = 0)
\* eval-mode calls never move the memory
EvalKeepsMemory == [][(mode = "eval" /\ calls' = calls + 1) => (phase' = phase /\ qreg' = qreg /\ rot' = rot)]_vars
=============================================================================
