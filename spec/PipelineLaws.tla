----------------------------- MODULE PipelineLaws -----------------------------
(***************************************************************************)
(* Call-order laws of kaira's pipeline models, as pure operators.  Used by  *)
(* the Pipelines state machine (model checking, behaviour export) and by    *)
(* Trace_Pipelines (validation of traces recorded from the real models).    *)
(***************************************************************************)
EXTENDS Naturals, Sequences, FiniteSets, TLC

\* ------------------------------------------------------------------ pure laws
RunOut(st, x) == x \o st
RunCalls(st, extra) == [i \in 1..Len(st) |-> <<st[i], extra>>]

\* index (1-based) of the first TRUE in a sequence of booleans, 0 if none
FirstTrue(cs) == IF \E i \in 1..Len(cs) : cs[i]
                 THEN CHOOSE i \in 1..Len(cs) : cs[i] /\ \A j \in 1..(i - 1) : ~cs[j]
                 ELSE 0
\* conditions evaluated by a branching run: all up to and including the first true one
CondsEvaluated(cs) == IF FirstTrue(cs) = 0 THEN Len(cs) ELSE FirstTrue(cs)

\* one feedback round, T rounds: the first round has no feedback processing
Round(first) == IF first THEN <<"enc", "fwd", "dec", "gen", "fbch">>
                         ELSE <<"proc", "enc", "fwd", "dec", "gen", "fbch">>
RECURSIVE Rounds(_)
Rounds(t) == IF t = 0 THEN <<>> ELSE IF t = 1 THEN Round(TRUE) ELSE Rounds(t - 1) \o Round(FALSE)

\* multiple access with U users and D decoders (D = 1: joint)
\* encs[i] = identity of the encoder declared for user i (a shared encoder appears several times)
MacCalls(encs, D) == [i \in 1..Len(encs) |-> <<"enc", encs[i]>>] \o << <<"constraint", 0>>, <<"channel", 0>> >>
                  \o [i \in 1..D |-> <<"dec", i>>]


\* Wyner-Ziv pipeline: optional quantizer / syndrome generator / constraint; the correlation
\* model is consulted only when no side information is supplied
WzCalls(hasQ, hasS, hasC, needCorr) ==
    <<"enc">> \o (IF hasQ THEN <<"quant">> ELSE <<>>) \o (IF hasS THEN <<"synd">> ELSE <<>>)
    \o (IF hasC THEN <<"constraint">> ELSE <<>>) \o <<"channel">>
    \o (IF needCorr THEN <<"corr">> ELSE <<>>) \o <<"dec">>

\* elementwise sum of a non-empty sequence of equally long integer sequences (superposition)
RECURSIVE SumSeqs(_)
SumSeqs(ss) == IF Len(ss) = 1 THEN ss[1]
               ELSE LET r == SumSeqs(Tail(ss)) IN [i \in 1..Len(ss[1]) |-> ss[1][i] + r[i]]
=============================================================================
