------------------------------- MODULE Trace_Soft -------------------------------
(* Validates traces recorded from kaira's soft-input decoders (property C10) against SoftDecoding. *)
EXTENDS SoftDecoding, Json, IOUtils
TLog == ndJsonDeserialize(IOEnv.TRACE_FILE)
VARIABLES l, cur
vars == <<l, cur>>
Chk(c, clause) == IF c THEN TRUE ELSE PrintT(<<"MISMATCH", TLog[l].tid, l, clause>>)
Init == l = 1 /\ cur = [n |-> 0]

CodeEv(e) == cur' = [n |-> e.n, H |-> e.H, C |-> IF e.enum THEN Code(e.H, e.n) ELSE {}, tree |-> IF e.enum THEN CycleFree(e.H) ELSE FALSE]

Clean(e) == /\ Chk(~e.raised /\ e.out = e.msg, "clean_llrs_decode_to_the_message")
            /\ Chk(e.raised \/ e.shape_ok, "advertised_output_shape")
            /\ UNCHANGED cur

\* Wagner: the returned message extends (by its parity bit) to a maximum-likelihood codeword of the single-parity-check code
\* (a tie between several maximum-likelihood codewords is admissible: the returned message must re-encode to ONE of them; ties are counted)
Wagner(e) == LET c == e.out \o << (Cardinality({ j \in 1..Len(e.out) : e.out[j] = 1 }) % 2) >>
                 u == MLUnique(e.y) IN
             /\ Chk(~e.raised /\ Len(e.out) = Len(e.y) - 1 /\ Corr(c, e.y, 1) = MLScore(e.y), "wagner_is_maximum_likelihood")
             /\ (IF u THEN TRUE ELSE PrintT(<<"TIE", e.tid>>))
             /\ UNCHANGED cur

\* BP on a cycle-free graph: exp(LLR_out) equals the exact posterior ratio (p12 = round(exp(llr) * 4096), q12 = round(exp(-llr) * 4096))
Near(v, num, den) == LET t == (num * 4096) \div den IN Abs(v - t) <= t \div 400 + 2
BpExact(e) == /\ Chk(~cur.tree \/ (~e.raised /\ \A i \in 1..cur.n :
                        LET p == Posterior(cur.C, e.a, i) IN
                        IF p[1] >= p[2] THEN Near(e.p12[i], p[1], p[2]) ELSE Near(e.q12[i], p[2], p[1])),
                     "bp_posterior_exact_on_cycle_free_graph")
              /\ UNCHANGED cur

\* min-sum: soft output equals the flooding min-sum rule (integers in units of 1/e.unit)
MinSum(e) == LET safe == e.beta = 0 \/ OffsetSafe(Edges(cur.H), [x \in Edges(cur.H) |-> 0], e.y, e.iters, e.an, e.ad, e.beta) IN
             /\ Chk(~e.raised /\ \A j \in 1..cur.n : Abs(e.soft[j] - MinSumSoft(cur.H, e.y, e.iters, e.an, e.ad, e.beta)[j]) <= 2,
                    "min_sum_check_update_is_sign_product_times_minimum_magnitude")
             /\ (IF safe THEN TRUE ELSE PrintT(<<"SUBOFFSET", e.tid>>))
             /\ UNCHANGED cur

\* positive rescaling of the input rescales the soft output and leaves the decisions unchanged
Rescale(e) == /\ Chk(~e.raised /\ e.hard2 = e.hard1 /\ \A j \in 1..Len(e.soft1) : Abs(e.soft2[j] - e.c * e.soft1[j]) <= e.c + 2, "min_sum_invariant_to_positive_rescaling")
              /\ UNCHANGED cur

Next == /\ l <= Len(TLog)
        /\ LET e == TLog[l] IN
             CASE e.ev = "Code" -> CodeEv(e)
               [] e.ev = "Clean" -> Clean(e)
               [] e.ev = "Wagner" -> Wagner(e)
               [] e.ev = "BpExact" -> BpExact(e)
               [] e.ev = "MinSum" -> MinSum(e)
               [] e.ev = "Rescale" -> Rescale(e)
               [] OTHER -> Chk(FALSE, "unknown_event") /\ UNCHANGED cur
        /\ l' = l + 1
Spec == Init /\ [][Next]_vars
AllConsumed == TLCGet("stats").diameter = Len(TLog) + 1
=============================================================================
