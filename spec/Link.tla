---------------------------------- MODULE Link ----------------------------------
(***************************************************************************)
(* The end-to-end chain of kaira's ChannelCodeModel as a state machine:     *)
(*   Encode -> Modulate -> Constrain -> Channel -> Demodulate -> Decode     *)
(* over a frame of B blocks (B = lcm(n, bits per symbol) / n, so that whole *)
(* symbols are framed).  The channel step is one of three independently     *)
(* enabled actions: ideal, bit flips of weight <= t per block placed on the *)
(* bit image, or symbol displacement (< dmin / 2: the hard decision is      *)
(* unchanged).  A nearest-codeword decoder stands for any decoder of C02.   *)
(***************************************************************************)
EXTENDS Families
CONSTANTS CodeName, P1, P2,   \* family name and parameters (see Families)
          Bps                 \* bits per symbol of the modem
VARIABLES stage, msg, word, faults
vars == <<stage, msg, word, faults>>

Sets == CASE CodeName = "hamming" -> HammingSets(P1, P2 = 1)
          [] CodeName = "repetition" -> RepetitionSets(P1)
          [] CodeName = "spc" -> SpcSets(P1)
          [] CodeName = "rm" -> RMSets(P1, P2)
NKD == FamilyNKD(CodeName, IF CodeName \in {"hamming", "rm"} THEN <<P1, P2>> ELSE <<P1>>)
n == NKD[1]
k == NKD[2]
t == (NKD[3] - 1) \div 2
G == RowsFromSets(Sets, n)
RECURSIVE GcdN(_, _)
GcdN(a, b) == IF b = 0 THEN a ELSE GcdN(b, a % b)
B == Bps \div GcdN(n, Bps)                         \* blocks per frame = lcm(n, Bps) / n
Msgs == 0..(2 ^ k - 1)
Light == { e \in 0..(2 ^ n - 1) : Wt(<<e>>) <= t }
C == { c[1] : c \in Span(G, 1) }
EncI(m) == Enc(<<m>>, G, 1)[1]
NearestMsg(r) == CHOOSE m \in Msgs : \A m2 \in Msgs : Wt(<<EncI(m) ^^ r>>) <= Wt(<<EncI(m2) ^^ r>>)

Init == stage = "source" /\ msg \in [1..B -> Msgs] /\ word = <<>> /\ faults = <<>>
Encode == stage = "source" /\ word' = [j \in 1..B |-> EncI(msg[j])] /\ stage' = "encoded" /\ UNCHANGED <<msg, faults>>
\* modulation + constraint map the bit image one-to-one onto symbols: the frame length must be a whole number of symbols
Modulate == stage = "encoded" /\ (B * n) % Bps = 0 /\ stage' = "modulated" /\ UNCHANGED <<msg, word, faults>>
ChannelIdeal == stage = "modulated" /\ faults' = [j \in 1..B |-> 0] /\ stage' = "received" /\ UNCHANGED <<msg, word>>
ChannelFlip == stage = "modulated" /\ faults' \in [1..B -> Light] /\ stage' = "received" /\ UNCHANGED <<msg, word>>
\* displacement below half the minimum distance leaves every hard decision unchanged: the bit image is untouched
ChannelDisplace == stage = "modulated" /\ faults' = [j \in 1..B |-> 0] /\ stage' = "received" /\ UNCHANGED <<msg, word>>
Demodulate == stage = "received" /\ word' = [j \in 1..B |-> word[j] ^^ faults[j]] /\ stage' = "demodulated" /\ UNCHANGED <<msg, faults>>
Decode == stage = "demodulated" /\ word' = [j \in 1..B |-> NearestMsg(word[j])] /\ stage' = "delivered" /\ UNCHANGED <<msg, faults>>
Next == Encode \/ Modulate \/ ChannelIdeal \/ ChannelFlip \/ ChannelDisplace \/ Demodulate \/ Decode
Spec == Init /\ [][Next]_vars /\ WF_vars(Next)

Delivered == stage = "delivered" => word = msg
FramesWholeSymbols == (B * n) % Bps = 0
Progress == <>(stage = "delivered")
=============================================================================
