------------------------------ MODULE MC_Constraints ------------------------------
(* The composition law on a model domain: folding is associative over concatenation (a composite of composites equals the flat composite) and *)
(* order-sensitive (so the order recorded from the implementation is observable).                                                             *)
EXTENDS Constraints
VARIABLE st
Kinds == {"clip3", "double", "neg", "inc"}
Init == st \in { <<a, b, c>> : a, b, c \in Kinds }
Next == UNCHANGED st
Spec == Init /\ [][Next]_st
FoldLaw == \A v \in -6..6 :
             /\ Fold(<<st[1], st[2], st[3]>>, v) = Fold(<<st[3]>>, Fold(<<st[1], st[2]>>, v))
             /\ Fold(<<st[1], st[2], st[3]>>, v) = Stage(st[3], Stage(st[2], Stage(st[1], v)))
OrderMatters == \E v \in -6..6 : Fold(<<"clip3", "double">>, v) # Fold(<<"double", "clip3">>, v)
=============================================================================
