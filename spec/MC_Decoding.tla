------------------------------ MODULE MC_Decoding ------------------------------
(* The decoding clauses of C02 on the spec's own constructions: a nearest-codeword decoder returns the       *)
(* message whenever at most t = (d-1) div 2 errors occurred, and DistanceLayers (used to judge the complete *)
(* decoders) agrees with brute-force nearest-codeword search.                                                *)
EXTENDS Families
CONSTANT Big
VARIABLE case
Cases == { <<"hamming", 3, 0>>, <<"hamming", 3, 1>>, <<"repetition", 5, 0>>, <<"spc", 4, 0>>, <<"rm", 1, 3>>, <<"cyclic", 7, 11>> }
         \cup (IF Big THEN { <<"rm", 1, 4>>, <<"cyclic", 15, 465>> } ELSE {})
Init == case \in Cases
Next == UNCHANGED case
Spec == Init /\ [][Next]_case
Sets(c) == CASE c[1] = "hamming" -> HammingSets(c[2], c[3] = 1)
             [] c[1] = "repetition" -> RepetitionSets(c[2])
             [] c[1] = "spc" -> SpcSets(c[2])
             [] c[1] = "rm" -> RMSets(c[2], c[3])
             [] c[1] = "cyclic" -> CyclicSets(c[2], BitsOf(c[3]))
N(c) == CASE c[1] = "hamming" -> 2 ^ c[2] - 1 + c[3] [] c[1] = "repetition" -> c[2] [] c[1] = "spc" -> c[2] + 1
          [] c[1] = "rm" -> 2 ^ c[3] [] c[1] = "cyclic" -> c[2]
DecodingOK ==
    LET n == N(case)
        G == RowsFromSets(Sets(case), n)
        C == { c[1] : c \in Span(G, 1) }
        d == MinDistEnum(G, 1)
        t == (d - 1) \div 2
        layers == DistanceLayers(G, n)
        Near(r) == CHOOSE c \in C : \A c2 \in C : Wt(<<c ^^ r>>) <= Wt(<<c2 ^^ r>>)
        Light == { e \in 0..(2 ^ n - 1) : Wt(<<e>>) <= t }
    IN /\ \A c \in C : \A e \in Light : Near(c ^^ e) = c                          \* unique decoding within capability
       /\ \A r \in 0..(2 ^ n - 1) : DistToCode(layers, r) = Wt(<<Near(r) ^^ r>>)     \* layers = brute force
       /\ Len(layers) - 1 >= t
=============================================================================
