------------------------------ MODULE Trace_DeepJSCC ------------------------------
(* Validates records of the DeepJSCC image pipelines (C19): per-layer spatial sizes (forward hooks) against ShapeAlgebra, the end-to-end shape / range *)
(* contract, reachability of every encoder parameter from the loss in the recorded autograd graph, and sensor results of gradient checks.               *)
EXTENDS ShapeAlgebra, Json, IOUtils
TLog == ndJsonDeserialize(IOEnv.TRACE_FILE)
VARIABLE l
Chk(c, clause) == IF c THEN TRUE ELSE PrintT(<<"MISMATCH", TLog[l].tid, l, clause>>)
Layers(e) == [i \in 1..Len(e.layers) |-> <<e.layers[i][1], e.layers[i][2], e.layers[i][3], e.layers[i][4], e.layers[i][5]>>]
Shape(e) ==
    IF e.raised THEN Chk(~e.admissible, "admissible_image_size_raised") ELSE
    /\ Chk(\A i \in 1..Len(e.layers) : e.layers[i][7] = LayerOut(e.layers[i][6], Layers(e)[i]), "every_layer_follows_the_size_law")
    /\ Chk(\A i \in 1..(Len(e.layers) - 1) : e.layers[i + 1][6] = e.layers[i][7] \/ e.layers[i + 1][8] = 1, "layers_are_chained")
    /\ Chk(~e.admissible \/ e.out_shape = e.in_shape, "decoder_restores_the_input_shape")
    /\ Chk(e.latent_num * e.ratio_den = e.ratio_num * e.latent_den, "latent_size_is_documented_bandwidth_ratio")
    /\ Chk(~e.admissible \/ e.in_range, "output_values_in_documented_range")
    /\ Chk(e.batch_out = e.batch_in, "batch_size_preserved")
Graph(e) ==
    LET E == { <<e.edges[i][1], e.edges[i][2]>> : i \in 1..Len(e.edges) }
        R == Reach({e.root}, E)
    IN /\ Chk(\A i \in 1..Len(e.params) : e.params[i] \in R, "loss_gradient_reaches_every_encoder_parameter")
       /\ Chk(\A i \in 1..Len(e.via) : e.via[i] \in R, "gradient_path_passes_constraint_and_channel")
       /\ Chk(e.all_finite, "gradients_finite")
       /\ Chk(e.all_nonzero, "gradients_non_vanishing")
Grad(e) == IF e.raised THEN Chk(FALSE, "gradient_check_raised") ELSE
           /\ Chk(e.relerr_ppm <= 2000, "gradient_matches_finite_differences")
           /\ Chk(e.has_grad, "output_depends_on_input_differentiably")
Filters(e) == IF e.raised THEN Chk(~e.integral, "filter_count_helper_raised_for_an_integral_case")
              ELSE Chk(NumFiltersOK(e.c, e.layers, e.rn, e.rd, e.channels, e.cplx), "filter_count_realises_the_bandwidth_ratio")
Init == l = 1
Next == /\ l <= Len(TLog)
        /\ LET e == TLog[l] IN
             CASE e.ev = "Shape" -> Shape(e) [] e.ev = "Graph" -> Graph(e) [] e.ev = "Grad" -> Grad(e) [] e.ev = "Filters" -> Filters(e) [] OTHER -> Chk(FALSE, "unknown_event")
        /\ l' = l + 1
Spec == Init /\ [][Next]_l
AllConsumed == TLCGet("stats").diameter = Len(TLog) + 1
=============================================================================
