---- MODULE MC_ResultStore ----
EXTENDS ResultStore
\* r1 and r3 share name and identifier prefix (one file, different content); r2 has a name that needs sanitising
FileOfDef == [r \in {"r1", "r2", "r3"} |-> IF r = "r2" THEN "benchb_bbbbbbbb.json" ELSE "bench_a_aaaaaaaa.json"]
SuiteListsDef == {<<"r1">>, <<"r1", "r2">>}
====
