-------------------------------- MODULE Blockwise --------------------------------
(***************************************************************************)
(* kaira.models.fec.utils.apply_blockwise: the last dimension of length L   *)
(* is cut into L / b consecutive blocks, a per-block function is applied,   *)
(* and the per-block results are concatenated in block order; leading       *)
(* dimensions are untouched (a tensor with leading dimensions is a sequence *)
(* of rows here).  A tuple-valued function yields a tuple of such results.  *)
(* L not divisible by b is an error.  Per-block functions are named:        *)
(*   "id", "rev" (reverse the block), "par" (append the block sum),         *)
(*   "head" (keep the first element), "pair" (tuple: block, head).          *)
(***************************************************************************)
EXTENDS Naturals, Sequences, TLC
CONSTANTS MaxRows, MaxL, Export
VARIABLES rows, len, b, fn, done
vars == <<rows, len, b, fn, done>>
Fns == {"id", "rev", "par", "head", "pair"}
RECURSIVE SumSeq(_)
SumSeq(s) == IF s = <<>> THEN 0 ELSE Head(s) + SumSeq(Tail(s))
Block(row, j, bb) == SubSeq(row, (j - 1) * bb + 1, j * bb)
F(name, blk) == CASE name = "id" -> blk
                  [] name = "rev" -> [i \in 1..Len(blk) |-> blk[Len(blk) + 1 - i]]
                  [] name = "par" -> Append(blk, SumSeq(blk))
                  [] name = "head" -> <<blk[1]>>
                  [] OTHER -> blk
RECURSIVE Concat(_)
Concat(ss) == IF ss = <<>> THEN <<>> ELSE Head(ss) \o Concat(Tail(ss))
RowResult(name, row, bb) == Concat([j \in 1..(Len(row) \div bb) |-> F(name, Block(row, j, bb))])
\* the input: row r holds the values (r-1) L + 1 .. r L (all distinct, so any misplacement shows)
Input(R, L) == [r \in 1..R |-> [i \in 1..L |-> (r - 1) * L + i]]
Result(name, R, L, bb) == [r \in 1..R |-> RowResult(name, Input(R, L)[r], bb)]
Init == rows \in 1..MaxRows /\ len \in 1..MaxL /\ b \in 1..MaxL /\ fn \in Fns /\ done = FALSE
Next == ~done /\ done' = TRUE /\ UNCHANGED <<rows, len, b, fn>>
Spec == Init /\ [][Next]_vars
Divides == len % b = 0
\* laws of the operator itself
LengthLaw == Divides => \A r \in 1..rows : Len(Result(fn, rows, len, b)[r]) =
                 (len \div b) * (CASE fn = "par" -> b + 1 [] fn = "head" -> 1 [] OTHER -> b)
IdentityLaw == (Divides /\ fn = "id") => Result("id", rows, len, b) = Input(rows, len)
RevInvolution == (Divides /\ fn = "rev") => \A r \in 1..rows : RowResult("rev", Result("rev", rows, len, b)[r], b) = Input(rows, len)[r]
BlockSizeOneOrWhole == (Divides /\ fn = "rev" /\ b = 1) => Result("rev", rows, len, b) = Input(rows, len)
ExportInv == (Export /\ ~done) => PrintT(<<"BCASE", rows, len, b, fn, Divides,
                 IF Divides THEN Result(IF fn = "pair" THEN "id" ELSE fn, rows, len, b) ELSE <<>>,
                 IF Divides /\ fn = "pair" THEN Result("head", rows, len, b) ELSE <<>> >>)
=============================================================================
