---- MODULE MC_Purity ----
EXTENDS Purity
====
