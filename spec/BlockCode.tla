------------------------------- MODULE BlockCode -------------------------------
(***************************************************************************)
(* A linear block code object as kaira publishes it: length n, dimension k, *)
(* generator matrix G, parity-check matrix H, advertised distance.  Pure    *)
(* operators; the life cycle Construct -> (Encode | Syndrome | Invert |     *)
(* Decode)* is driven by Trace_BlockCode.                                   *)
(***************************************************************************)
EXTENDS GF2, Integers

\* ------------------------------------------------------------ C01: one and the same code
GeneratorShapeOK(G, n, k) == Len(G) = k /\ \A i \in 1..k : Len(G[i]) = NLimbs(n) /\ Support(G[i], NLimbs(n) * LB) \subseteq 0..(n - 1)
FullRank(G, k) == Rank(G) = k
CheckRankOK(H, n, k) == Rank(H) = n - k
Orthogonal(G, H) == \A i \in 1..Len(G), j \in 1..Len(H) : Dot(G[i], H[j]) = 0

\* ------------------------------------------------------------ C03: advertised parameters
RECURSIVE Binom(_, _)
Binom(n, r) == IF r = 0 \/ r = n THEN 1 ELSE IF r > n THEN 0 ELSE Binom(n - 1, r - 1) + Binom(n - 1, r)
RECURSIVE SumBinom(_, _)
SumBinom(n, t) == IF t = 0 THEN 1 ELSE Binom(n, t) + SumBinom(n, t - 1)

\* closed-form (n, k, d) of the named families; d = 0: no closed form (lower bound only)
FamilyNKD(fam, p) ==
    CASE fam = "hamming"    -> <<2 ^ p[1] - 1 + p[2], 2 ^ p[1] - 1 - p[1], 3 + p[2]>>
      [] fam = "golay"      -> <<23 + p[1], 12, 7 + p[1]>>
      [] fam = "repetition" -> <<p[1], 1, p[1]>>
      [] fam = "spc"        -> <<p[1] + 1, p[1], 2>>
      [] fam = "rm"         -> <<2 ^ p[2], SumBinom(p[2], p[1]), 2 ^ (p[2] - p[1])>>
      [] fam = "bch"        -> <<2 ^ p[1] - 1, -1, 0>>
      [] fam = "rs"         -> <<2 ^ p[1] - 1, -1, 0>>
      [] OTHER              -> <<-1, -1, 0>>

\* exact minimum distance by enumeration of the row space (k <= 16)
MinDistEnum(G, L) == MinWt(Span(G, L))
\* d >= dd  <=>  every dd-1 columns of H are linearly independent  <=>  no non-zero word of weight < dd
\* has zero syndrome; used when n-k is small and k is large (dd <= 5)
ColumnsOf(H, n) == [j \in 0..(n - 1) |-> FromBits(NLimbs(Len(H)), { i - 1 : i \in { i \in 1..Len(H) : Bit(H[i], j) = 1 } })]
NoLightCodeword(H, n, dd) ==
    LET C == ColumnsOf(H, n)
        Z == ZeroV(NLimbs(Len(H))) IN
    /\ (dd >= 2 => \A a \in 0..(n - 1) : C[a] # Z)
    /\ (dd >= 3 => \A a, b \in 0..(n - 1) : a < b => C[a] # C[b])
    /\ (dd >= 4 => \A a, b, c \in 0..(n - 1) : (a < b /\ b < c) => VXor(C[a], C[b]) # C[c])
    /\ (dd >= 5 => \A a, b, c, d \in 0..(n - 1) : (a < b /\ b < c /\ c < d) => VXor(VXor(C[a], C[b]), C[c]) # C[d])

\* polynomials over GF(2) as sets of exponents
PDeg(A) == IF A = {} THEN -1 ELSE CHOOSE d \in A : \A e \in A : e <= d
SymDiff(A, B2) == (A \ B2) \cup (B2 \ A)
RECURSIVE PMod(_, _)
PMod(A, Gp) == IF PDeg(A) < PDeg(Gp) THEN A
               ELSE PMod(SymDiff(A, { e + PDeg(A) - PDeg(Gp) : e \in Gp }), Gp)
Divides(Gp, A) == PMod(A, Gp) = {}
CyclicClosed(G, n, B) == \A i \in 1..Len(G) : InSpan(Rot(G[i], n), B)
SpherePacking(n, k, t) == 2 ^ (n - k) = SumBinom(n, t)

\* ------------------------------------------------------------ C02: nearest-codeword decoding
\* layers[d+1] = set of words (single limb, as naturals) at distance exactly d from the code
RECURSIVE LayersFrom(_, _, _, _)
LayersFrom(front, seen, n, acc) ==
    IF front = {} THEN acc
    ELSE LET nxt == { w ^^ Pow2(j) : w \in front, j \in 0..(n - 1) } \ seen
         IN LayersFrom(nxt, seen \cup nxt, n, Append(acc, front))
DistanceLayers(G, n) == LET C == { c[1] : c \in Span(G, 1) } IN LayersFrom(C, C, n, <<>>)
DistToCode(layers, w) == (CHOOSE d \in 1..Len(layers) : w \in layers[d]) - 1
=============================================================================
