---- MODULE MC_Blockwise ----
EXTENDS Blockwise
====
