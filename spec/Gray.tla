---------------------------------- MODULE Gray ----------------------------------
(* Reflected binary Gray code on naturals (and on pairs of 30-bit limbs <<lo, hi>> for arguments up to 2^60). *)
EXTENDS Naturals, Sequences, Bitwise, TLC
B2G(n) == n ^^ (n \div 2)
RECURSIVE G2B(_)
G2B(g) == IF g = 0 THEN 0 ELSE g ^^ G2B(g \div 2)
RECURSIVE Pop(_)
Pop(x) == IF x = 0 THEN 0 ELSE (x % 2) + Pop(x \div 2)
\* limbs: value = lo + 2^30 * hi
B2GL(v) == << v[1] ^^ ((v[1] \div 2) + (v[2] % 2) * 536870912), v[2] ^^ (v[2] \div 2) >>
PopL(v) == Pop(v[1]) + Pop(v[2])
XorL(a, b) == << a[1] ^^ b[1], a[2] ^^ b[2] >>
SuccL(v) == IF v[1] = 1073741823 THEN <<0, v[2] + 1>> ELSE <<v[1] + 1, v[2]>>
=============================================================================
