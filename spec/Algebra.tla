-------------------------------- MODULE Algebra --------------------------------
(***************************************************************************)
(* GF(2)[X] and GF(2^m) as kaira.models.fec.algebra presents them.          *)
(* A binary polynomial is a natural (bit j = coefficient of X^j); a field   *)
(* element of GF(2^m) is a natural below 2^m, reduced modulo a polynomial   *)
(* `md` of degree m.  Large polynomials (degree up to 200) are sets of      *)
(* exponents (S-operators).                                                 *)
(***************************************************************************)
EXTENDS Naturals, Integers, Sequences, FiniteSets, Bitwise, TLC

P2(j) == 2 ^ j
RECURSIVE Deg(_)
Deg(a) == IF a = 0 THEN -1 ELSE 1 + Deg(a \div 2)

RECURSIVE PMul(_, _)
PMul(a, b) == IF b = 0 THEN 0 ELSE (IF b % 2 = 1 THEN a ELSE 0) ^^ PMul(2 * a, b \div 2)
RECURSIVE PMod(_, _)
PMod(a, g) == IF Deg(a) < Deg(g) THEN a ELSE PMod(a ^^ (g * P2(Deg(a) - Deg(g))), g)
RECURSIVE PDiv(_, _)
PDiv(a, g) == IF Deg(a) < Deg(g) THEN 0 ELSE P2(Deg(a) - Deg(g)) + PDiv(a ^^ (g * P2(Deg(a) - Deg(g))), g)
RECURSIVE PGcd(_, _)
PGcd(a, b) == IF b = 0 THEN a ELSE PGcd(b, PMod(a, b))
\* extended Euclid: <<g, s, t>> with s.a + t.b = g
RECURSIVE PXGcd(_, _, _, _, _, _)
PXGcd(r0, r1, s0, s1, t0, t1) ==
    IF r1 = 0 THEN <<r0, s0, t0>>
    ELSE LET q == PDiv(r0, r1) IN PXGcd(r1, r0 ^^ PMul(q, r1), s1, s0 ^^ PMul(q, s1), t1, t0 ^^ PMul(q, t1))
Bezout(a, b) == PXGcd(a, b, 1, 0, 0, 1)
PLcm(a, b) == IF a = 0 \/ b = 0 THEN 0 ELSE PDiv(PMul(a, b), PGcd(a, b))
RECURSIVE PDeriv(_, _)
PDeriv(a, j) == IF a = 0 THEN 0 ELSE (IF a % 2 = 1 /\ j % 2 = 1 THEN P2(j - 1) ELSE 0) + PDeriv(a \div 2, j + 1)
Irreducible(p) == Deg(p) >= 1 /\ \A g \in 2..(P2((Deg(p) \div 2) + 1) - 1) : PMod(p, g) # 0

\* ------------------------------------------------------------------ GF(2^m)
RECURSIVE FMul(_, _, _, _)
FMul(a, b, md, m) == IF b = 0 THEN 0
                     ELSE LET a2 == IF 2 * a >= P2(m) THEN (2 * a) ^^ md ELSE 2 * a
                          IN (IF b % 2 = 1 THEN a ELSE 0) ^^ FMul(a2, b \div 2, md, m)
RECURSIVE FPow(_, _, _, _)
FPow(a, e, md, m) == IF e = 0 THEN 1
                     ELSE LET h == FPow(a, e \div 2, md, m)
                              h2 == FMul(h, h, md, m)
                          IN IF e % 2 = 1 THEN FMul(h2, a, md, m) ELSE h2
FInv(a, md, m) == FPow(a, P2(m) - 2, md, m)
RECURSIVE FrobSeq(_, _, _, _)
FrobSeq(a, i, md, m) == IF i = 0 THEN <<>> ELSE <<a>> \o FrobSeq(FMul(a, a, md, m), i - 1, md, m)
RECURSIVE XorSeq(_)
XorSeq(s) == IF s = <<>> THEN 0 ELSE Head(s) ^^ XorSeq(Tail(s))
FTrace(a, md, m) == XorSeq(FrobSeq(a, m, md, m))
Conjugates(a, md, m) == { FrobSeq(a, m, md, m)[i] : i \in 1..m }
\* polynomial with field coefficients (sequence, index j+1 = coefficient of X^j) times (X + c)
TimesLinear(p, c, md, m) == [j \in 1..(Len(p) + 1) |->
                               (IF j > 1 THEN p[j - 1] ELSE 0) ^^ (IF j <= Len(p) THEN FMul(p[j], c, md, m) ELSE 0)]
RECURSIVE ProdLinear(_, _, _)
ProdLinear(C, md, m) == IF C = {} THEN <<1>>
                        ELSE LET c == CHOOSE c \in C : TRUE IN TimesLinear(ProdLinear(C \ {c}, md, m), c, md, m)
RECURSIVE SeqToPoly(_, _)
SeqToPoly(p, j) == IF j > Len(p) THEN 0 ELSE p[j] * P2(j - 1) + SeqToPoly(p, j + 1)
\* minimal polynomial = product over the conjugacy class; its coefficients lie in {0,1}
MinPolySeq(a, md, m) == ProdLinear(Conjugates(a, md, m), md, m)
MinPoly(a, md, m) == LET q == MinPolySeq(a, md, m) IN
                     IF \A j \in 1..Len(q) : q[j] \in {0, 1} THEN SeqToPoly(q, 1) ELSE -1   \* -1: not a binary polynomial (md reducible)
\* evaluate a binary polynomial p at the field element x
EvalAt(p, x, md, m) == LET RECURSIVE E(_, _)
                           E(q, pw) == IF q = 0 THEN 0 ELSE (IF q % 2 = 1 THEN pw ELSE 0) ^^ E(q \div 2, FMul(pw, x, md, m))
                       IN E(p, 1)

\* ------------------------------------------------------------------ large polynomials as exponent sets
SDeg(A) == IF A = {} THEN -1 ELSE CHOOSE d \in A : \A e \in A : e <= d
SXor(A, B) == (A \ B) \cup (B \ A)
RECURSIVE SMulAcc(_, _, _)
SMulAcc(A, B, acc) == IF B = {} THEN acc
                      ELSE LET e == CHOOSE e \in B : TRUE IN SMulAcc(A, B \ {e}, SXor(acc, { a + e : a \in A }))
SMul(A, B) == SMulAcc(A, B, {})
RECURSIVE SMod(_, _)
SMod(A, G) == IF SDeg(A) < SDeg(G) THEN A ELSE SMod(SXor(A, { e + SDeg(A) - SDeg(G) : e \in G }), G)
=============================================================================
