---- MODULE MC_Registry ----
EXTENDS Registry
====
