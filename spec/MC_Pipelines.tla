---- MODULE MC_Pipelines ----
EXTENDS Pipelines
====
