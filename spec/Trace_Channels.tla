----------------------------- MODULE Trace_Channels -----------------------------
(***************************************************************************)
(* Validates records of kaira's channel models (C12 binary channels, C13    *)
(* flat fading, C07 additive noise).  Exact clauses (support, alphabet,     *)
(* determinism, block constancy, y = h x + n on Gaussian integers, verbatim *)
(* noise, same-seed scaling) are decided on every logged sample or table;   *)
(* statistical clauses take sensor counts / centi-dB measurements and are   *)
(* decided here against the law and its band.                               *)
(***************************************************************************)
EXTENDS BinaryChannels, NoiseLaw, Json, IOUtils
TLog == ndJsonDeserialize(IOEnv.TRACE_FILE)
VARIABLE l
Chk(c, clause) == IF c THEN TRUE ELSE PrintT(<<"MISMATCH", TLog[l].tid, l, clause>>)
Cells(e) == { e.cells[i] : i \in 1..Len(e.cells) }
RECURSIVE SumCount(_)
SumCount(S) == IF S = {} THEN 0 ELSE LET c == CHOOSE c \in S : TRUE IN c[3] + SumCount(S \ {c})

Table(e) ==
    LET ch == e.channel  al == e.alphabet  er == e.er2
        k == SumCount({ c \in Cells(e) : IsEvent(ch, al, er, c[1], c[2]) })
        nel == SumCount({ c \in Cells(e) : Eligible(ch, al, er, c[1]) })
    IN /\ Chk(\A c \in Cells(e) : c[3] = 0 \/ Allowed(ch, al, er, c[1], c[2]), "output_within_transition_support_and_alphabet")
       /\ Chk(e.pn # 0 \/ \A c \in Cells(e) : c[3] = 0 \/ c[2] = c[1], "probability_zero_is_the_identity")
       /\ Chk(e.pn # e.D \/ \A c \in Cells(e) : c[3] = 0 \/ ~Eligible(ch, al, er, c[1]) \/ c[2] = Extreme(ch, al, er, c[1]), "probability_one_is_the_deterministic_extreme")
       /\ Chk(e.input_unchanged, "input_tensor_not_modified")
       /\ Chk(e.shape_ok, "output_shape_equals_input_shape")
       /\ Chk(SumCount(Cells(e)) = e.N, "every_symbol_accounted_for")
       /\ Chk(e.N < 100000 \/ InBand(k, nel, e.pn, e.D, 49), "event_rate_equals_configured_probability")
       /\ Chk(e.N < 100000 \/ e.pairs < 0 \/ InBand(e.pairs, Mean(e.npairs, e.pn, e.D), e.pn, e.D, 150), "events_pairwise_independent")
       /\ Chk(e.N < 100000 \/ e.ipairs < 0 \/ InBand(e.ipairs, Mean(e.inpairs, e.pn, e.D), e.pn, e.D, 150), "events_independent_across_batch_items")
       /\ Chk(e.N < 100000 \/ e.cpairs < 0 \/ InBand(e.cpairs, Mean(e.cnpairs, e.pn, e.D), e.pn, e.D, 150), "events_independent_across_successive_calls")

Fading(e) ==
    /\ Chk(e.shape_ok, "output_shape_equals_input_shape")
    /\ Chk(e.xs = <<>> \/ (Len(e.ys) = Len(e.xs) /\ \A i \in 1..Len(e.xs) :
               e.ys[i] = << e.hs[i][1] * e.xs[i][1] - e.hs[i][2] * e.xs[i][2] + e.ns[i][1], e.hs[i][1] * e.xs[i][2] + e.hs[i][2] * e.xs[i][1] + e.ns[i][2] >>),
           "supplied_csi_and_noise_give_exactly_h_x_plus_n")
    /\ Chk(e.blocks = <<>> \/ \A i, j \in 1..Len(e.blocks) : (((i - 1) \div e.T) = ((j - 1) \div e.T)) => e.blocks[i] = e.blocks[j], "gain_constant_within_coherence_block")
    /\ Chk(e.blocks = <<>> \/ e.distinct_required = 0 \/ Cardinality({ e.blocks[i] : i \in 1..Len(e.blocks) }) >= e.distinct_required, "gain_redrawn_across_blocks")
    /\ Chk(e.corr_band_ppm = 0 \/ Abs(e.corr_ppm) <= e.corr_band_ppm, "gains_of_different_blocks_are_independent_draws")
    /\ Chk(e.corr_band_ppm = 0 \/ Abs(e.icorr_ppm) <= e.corr_band_ppm, "gains_of_different_batch_items_are_independent_draws")
    /\ Chk(e.gain_ppm < 0 \/ Abs(e.gain_ppm - 1000000) <= e.gain_band_ppm, "unit_mean_square_gain")
    /\ Chk(e.k10 < 0 \/ Abs(e.los_ppm * (10 + e.k10) - 1000000 * e.k10) <= e.gain_band_ppm * (10 + e.k10), "rician_line_of_sight_share_is_K_over_K_plus_1")

Noise(e) ==
    /\ Chk(e.expected_cdb = 99999 \/ Abs(e.noise_cdb - e.expected_cdb) <= PowerBandCdb(e.N, e.family), "noise_power_equals_configured_value")
    /\ Chk(e.mean_ppm = 99999999 \/ Abs(e.mean_ppm) <= MeanBandPpm(e.N), "noise_has_zero_mean")
    /\ Chk(e.verbatim < 0 \/ e.verbatim = 1, "caller_supplied_noise_added_verbatim")
    /\ Chk(e.scaling < 0 \/ e.scaling = 1, "same_seed_noise_scales_with_sqrt_of_power")
    /\ Chk(e.shape_ok, "output_shape_equals_input_shape")

Conv(e) == /\ Chk(Abs(e.got_cdb - SnrLaw(e.kind, e.a_cdb, e.b_cdb)) <= 1, "snr_utilities_agree_with_the_additive_law")

Init == l = 1
Next == /\ l <= Len(TLog)
        /\ LET e == TLog[l] IN
             CASE e.ev = "Table" -> Table(e)
               [] e.ev = "Fading" -> Fading(e)
               [] e.ev = "Noise" -> Noise(e)
               [] e.ev = "Conv" -> Conv(e)
               [] OTHER -> Chk(FALSE, "unknown_event")
        /\ l' = l + 1
Spec == Init /\ [][Next]_l
AllConsumed == TLCGet("stats").diameter = Len(TLog) + 1
=============================================================================
