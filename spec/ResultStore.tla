-------------------------------- MODULE ResultStore --------------------------------
(***************************************************************************)
(* kaira.benchmarks.BenchmarkResultsManager as a store on a directory tree. *)
(* A file is <<directory path, file name>>; `live` maps the result files    *)
(* outside archives/ to the result they hold, `aux` is the set of summary   *)
(* and comparison files (never listed), `old` the files whose modification  *)
(* time the driver has pushed beyond the archive cut-off, `archived` maps   *)
(* files under archives/ (path relative to archives/) to their content.     *)
(*                                                                           *)
(*   Save(r, c, e)       writes <c>/<e>/<name_id8>.json (no time stamp);    *)
(*                       an equal file name is overwritten and is new again *)
(*   SaveSuite(rs, s, e) writes suites/<e>/<s>/<name_id8>.json for every    *)
(*                       result and suites/<e>/<s>/summary.json             *)
(*   (every writing step takes a flag `aged`: the driver pushes the          *)
(*    modification time of the files just written beyond the cut-off)       *)
(*   Archive             every old file outside archives/ moves to          *)
(*                       archives/<its relative path>; nothing else moves   *)
(*   Compare(name)       writes comparisons/<name>_comparison.json over the *)
(*                       live result files in sorted order                  *)
(*   List(c, e) / Load(f) observe: result files under the directory,        *)
(*                       without summaries, comparisons and archives        *)
(***************************************************************************)
EXTENDS Naturals, Sequences, FiniteSets, TLC
CONSTANTS Results,      \* result tokens; FileOf[r] is the file name a result is saved under (two tokens may share one)
          FileOf, Cats, Exps, Suites, SuiteLists, MaxLen, Export, Design
\* Design = "code" is the intended behaviour; "nest" (for the vacuity guard) re-archives files that are already under archives/
VARIABLES live, aux, old, archived, hist
vars == <<live, aux, old, archived, hist>>
NoExp == "-"
Dir(c, e) == IF e = NoExp THEN <<c>> ELSE <<c, e>>
SuiteDir(s, e) == IF e = NoExp THEN <<"suites", s>> ELSE <<"suites", e, s>>
IsPrefix(p, q) == Len(p) <= Len(q) /\ \A i \in 1..Len(p) : p[i] = q[i]
Files(m) == DOMAIN m
Put(m, f, v) == [g \in (DOMAIN m) \cup {f} |-> IF g = f THEN v ELSE m[g]]
Drop(m, S) == [g \in (DOMAIN m) \ S |-> m[g]]

Empty == [f \in {} |-> 0]
InitF == live = Empty /\ aux = {} /\ old = {} /\ archived = Empty /\ hist = <<>>

Snapshot == [live |-> live, aux |-> aux, archived |-> archived]
Log(op, a, res) == hist' = Append(hist, [op |-> op, a |-> a, res |-> res, live |-> live', aux |-> aux', archived |-> archived'])

Save(r, c, e, aged) ==
    LET f == <<Dir(c, e), FileOf[r]>> IN
    /\ live' = Put(live, f, r) /\ old' = (IF aged THEN old \cup {f} ELSE old \ {f}) /\ UNCHANGED <<aux, archived>>
    /\ Log("save", <<r, c, e, aged>>, <<f>>)
RECURSIVE PutAll(_, _, _)
PutAll(m, d, rs) == IF rs = <<>> THEN m ELSE PutAll(Put(m, <<d, FileOf[Head(rs)]>>, Head(rs)), d, Tail(rs))
SaveSuite(rs, s, e, aged) ==
    LET d == SuiteDir(s, e)
        written == { <<d, FileOf[rs[i]]>> : i \in DOMAIN rs } \cup {<<d, "summary.json">>}
    IN /\ live' = PutAll(live, d, rs)
       /\ old' = (IF aged THEN old \cup written ELSE old \ written)
       /\ aux' = aux \cup {<<d, "summary.json">>}
       /\ UNCHANGED archived
       /\ Log("suite", <<rs, s, e, aged>>, written)
Archive ==
    LET mov == old \cap Files(live)
        movaux == old \cap aux
        \* the wrong design moves the files already under archives/ one level deeper on every call
        prev == IF Design = "nest" THEN [g \in { <<<<"archives">> \o h[1], h[2]>> : h \in Files(archived) } |->
                                            archived[CHOOSE h \in Files(archived) : g = <<<<"archives">> \o h[1], h[2]>>]]
                ELSE archived
    IN /\ live' = Drop(live, mov)
       /\ aux' = aux \ movaux
       /\ archived' = [g \in Files(prev) \cup mov \cup movaux |->
                          IF g \in mov THEN live[g] ELSE IF g \in movaux THEN "aux" ELSE prev[g]]
       /\ old' = {}
       /\ Log("archive", <<>>, <<>>)
Compare(name, aged) ==
    /\ aux' = aux \cup {<<<<"comparisons">>, name>>}
    /\ old' = (IF aged THEN old \cup {<<<<"comparisons">>, name>>} ELSE old \ {<<<<"comparisons">>, name>>})
    /\ UNCHANGED <<live, archived>>
    /\ Log("compare", <<name, aged>>, <<>>)
\* observers
Listed(d) == { f \in Files(live) : IsPrefix(d, f[1]) }
List(d) == UNCHANGED <<live, aux, old, archived>> /\ Log("list", <<d>>, Listed(d))
Load(f) == f \in Files(live) /\ UNCHANGED <<live, aux, old, archived>> /\ Log("load", <<f>>, <<live[f]>>)

ListDirs == {<<>>} \cup { <<c>> : c \in Cats \cup {"suites"} } \cup { Dir(c, e) : c \in Cats, e \in Exps \ {NoExp} }
Mutate == \/ \E r \in Results, c \in Cats, e \in Exps, g \in BOOLEAN : Save(r, c, e, g)
          \/ \E s \in Suites, e \in Exps, rs \in SuiteLists, g \in BOOLEAN : SaveSuite(rs, s, e, g)
          \/ Archive
          \/ \E g \in BOOLEAN : Compare("cmp", g)
Observe == (\E d \in ListDirs : List(d)) \/ (\E f \in Files(live) : Load(f))
Next == \/ Len(hist) < MaxLen - 1 /\ Mutate
        \/ Len(hist) = MaxLen - 1 /\ Observe
Spec == InitF /\ [][Next]_vars

(***************************************************************************)
(* Properties                                                               *)
(***************************************************************************)
\* a listing never shows a summary, a comparison report or anything archived, and shows every live result under the directory
ListLaw == \A j \in 1..Len(hist) : hist[j].op = "list" =>
    /\ hist[j].res \cap hist[j].aux = {}
    /\ \A f \in hist[j].res : f[1] # <<>> /\ f[1][1] \notin {"archives", "comparisons"} /\ f[2] # "summary.json"
    /\ hist[j].res = { f \in DOMAIN hist[j].live : IsPrefix(hist[j].a[1], f[1]) }
\* durability: a saved result is live, holding the saved content, until an archive step after it was aged
SavedStaysUntilArchived == \A i, j \in 1..Len(hist) : (i < j /\ hist[i].op = "save"
        /\ \A k \in (i + 1)..j : hist[k].op \notin {"archive"} /\ ~(hist[k].op \in {"save"} /\ hist[k].res = hist[i].res)
                                 /\ ~(hist[k].op = "suite"))
    => (hist[i].res[1] \in DOMAIN hist[j].live /\ hist[j].live[hist[i].res[1]] = hist[i].a[1])
\* archiving never loses a file: everything that was live or archived before is live or archived after, with its content
ArchiveKeepsEverything == \A j \in 2..Len(hist) : hist[j].op = "archive" =>
    /\ \A f \in DOMAIN hist[j - 1].live : (f \in DOMAIN hist[j].live /\ hist[j].live[f] = hist[j - 1].live[f])
                                          \/ (f \in DOMAIN hist[j].archived /\ hist[j].archived[f] = hist[j - 1].live[f])
    /\ \A f \in DOMAIN hist[j - 1].archived : f \in DOMAIN hist[j].archived /\ hist[j].archived[f] = hist[j - 1].archived[f]
\* an archive step right after another one changes nothing
ArchiveIdempotent == \A j \in 2..Len(hist) : (hist[j].op = "archive" /\ hist[j - 1].op = "archive") =>
    (hist[j].live = hist[j - 1].live /\ hist[j].archived = hist[j - 1].archived /\ hist[j].aux = hist[j - 1].aux)
NothingOldSurvivesArchive == (hist # <<>> /\ hist[Len(hist)].op = "archive") => old = {}
ExportInv == (Export /\ Len(hist) = MaxLen) => PrintT(<<"SHIST", [i \in 1..Len(hist) |->
    <<hist[i].op, hist[i].a, hist[i].res, { <<f, hist[i].live[f]>> : f \in DOMAIN hist[i].live }, hist[i].aux,
      { <<f, hist[i].archived[f]>> : f \in DOMAIN hist[i].archived }>>]>>)
=============================================================================
