------------------------------- MODULE MC_NoiseLaw -------------------------------
EXTENDS NoiseLaw
VARIABLE v
Init == v \in 1..2000
Next == UNCHANGED v
Spec == Init /\ [][Next]_v
NN == v * 1000
LawOK == /\ Sqrt(NN) * Sqrt(NN) <= NN /\ (Sqrt(NN) + 1) * (Sqrt(NN) + 1) > NN
         /\ PowerBandCdb(NN, "gaussian") >= PowerBandCdb(NN + 1000, "gaussian")
         /\ PowerBandCdb(NN, "laplacian") >= PowerBandCdb(NN, "gaussian")
         /\ MeanBandPpm(NN) >= MeanBandPpm(NN + 1000)
         /\ PowerBandCdb(1000000, "gaussian") <= 8 /\ PowerBandCdb(1000000, "gaussian") >= 4
         /\ SnrLaw("noise_from_snr", SnrLaw("snr_from_powers", v, 17) + 17, SnrLaw("snr_from_powers", v, 17)) = 17
         /\ SnrLaw("snr_from_powers", v, SnrLaw("noise_from_snr", v, 250)) = 250
=============================================================================
