------------------------------ MODULE MC_Algebra ------------------------------
(* Oracle soundness for C18: the spec's GF(2)[X] is a Euclidean ring and its GF(2^m) (with the standard *)
(* primitive moduli) is a field.  One state per operand pair so that TLC's workers share the work.       *)
EXTENDS Algebra
CONSTANTS MaxDeg,      \* polynomials below this degree (pairs)
          MaxM,        \* fields m = 1..MaxM: all pairs
          MaxM3        \* fields m = 1..MaxM3: all triples
VARIABLE st
StdMod == <<3, 7, 11, 19, 37, 67, 131, 285, 529, 1033, 2053, 4179, 8219, 17475, 32771, 65581>>
Init == st \in ({ <<"poly", a, b>> : a, b \in 0..(P2(MaxDeg) - 1) }
                \cup { <<"pair", m, a, b>> : m \in 1..MaxM, a, b \in 0..(P2(MaxM) - 1) }
                \cup { <<"triple", m, a>> : m \in 1..MaxM3, a \in 0..(P2(MaxM3) - 1) })
Next == UNCHANGED st
Spec == Init /\ [][Next]_st

PolyLaws(a, b) ==
    /\ PMul(a, b) = PMul(b, a)
    /\ (a # 0 /\ b # 0) => Deg(PMul(a, b)) = Deg(a) + Deg(b)
    /\ b # 0 => (PMul(PDiv(a, b), b) ^^ PMod(a, b) = a /\ Deg(PMod(a, b)) < Deg(b))
    /\ LET x == Bezout(a, b) IN
         /\ x[1] = PGcd(a, b)
         /\ PMul(x[2], a) ^^ PMul(x[3], b) = x[1]                       \* a combination of the operands
         /\ (x[1] # 0 => PMod(a, x[1]) = 0 /\ PMod(b, x[1]) = 0)        \* divides both
    /\ (a # 0 /\ b # 0) => PMul(PLcm(a, b), PGcd(a, b)) = PMul(a, b)
    /\ PDeriv(PMul(a, b), 0) = PMul(PDeriv(a, 0), b) ^^ PMul(a, PDeriv(b, 0))   \* Leibniz

PairLaws(m, a, b) == (a < P2(m) /\ b < P2(m)) =>
    LET md == StdMod[m] IN
    /\ FMul(a, b, md, m) = FMul(b, a, md, m)
    /\ FMul(a, b, md, m) < P2(m)
    /\ FMul(a, 1, md, m) = a
    /\ (a # 0 /\ b # 0) => FMul(a, b, md, m) # 0                         \* no zero divisors
    /\ a # 0 => FMul(a, FInv(a, md, m), md, m) = 1
    /\ FPow(a, b, md, m) = (IF b = 0 THEN 1 ELSE FMul(FPow(a, b - 1, md, m), a, md, m))
    /\ FTrace(a, md, m) \in {0, 1}
    /\ FTrace(a ^^ b, md, m) = FTrace(a, md, m) ^^ FTrace(b, md, m)
    /\ (b = 0 /\ a # 0) => LET p == MinPoly(a, md, m) IN
                              /\ \A j \in 1..Len(MinPolySeq(a, md, m)) : MinPolySeq(a, md, m)[j] \in {0, 1}
                              /\ EvalAt(p, a, md, m) = 0
                              /\ Irreducible(p)
                              /\ Deg(p) = Cardinality(Conjugates(a, md, m))

TripleLaws(m, a) == a < P2(m) =>
    LET md == StdMod[m] IN
    \A b, c \in 0..(P2(m) - 1) :
        /\ FMul(FMul(a, b, md, m), c, md, m) = FMul(a, FMul(b, c, md, m), md, m)
        /\ FMul(a, b ^^ c, md, m) = FMul(a, b, md, m) ^^ FMul(a, c, md, m)

Laws == CASE st[1] = "poly" -> PolyLaws(st[2], st[3])
          [] st[1] = "pair" -> PairLaws(st[2], st[3], st[4])
          [] st[1] = "triple" -> TripleLaws(st[2], st[3])
=============================================================================
