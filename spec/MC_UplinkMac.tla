---- MODULE MC_UplinkMac ----
EXTENDS UplinkMac
SigSet == {-1, 0, 2}      \* the configuration file does not accept negative literals
====
