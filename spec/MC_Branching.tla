---- MODULE MC_Branching ----
EXTENDS Branching
====
