--------------------------------- MODULE Modem ---------------------------------
(***************************************************************************)
(* Constellations and memoryless / memory modems of kaira.modulations.      *)
(* Points are pairs of integers (coordinates scaled by S and rounded),      *)
(* labels are naturals (first bit = most significant).                      *)
(***************************************************************************)
EXTENDS Naturals, Integers, Sequences, FiniteSets, Bitwise, TLC

D2(p, q) == (p[1] - q[1]) * (p[1] - q[1]) + (p[2] - q[2]) * (p[2] - q[2])
RECURSIVE PopC(_)
PopC(x) == IF x = 0 THEN 0 ELSE (x % 2) + PopC(x \div 2)
Idx(pts) == 1..Len(pts)
MinD2(pts) == LET S == { D2(pts[i], pts[j]) : i, j \in { a \in Idx(pts) : TRUE } } \ {0} IN
              IF S = {} THEN 0 ELSE CHOOSE d \in S : \A e \in S : d <= e

\* ------------------------------------------------------------------ C14
LabelsBijective(labels, b) == Len(labels) = 2 ^ b /\ { labels[i] : i \in 1..Len(labels) } = 0..(2 ^ b - 1)
PointsDistinct(pts) == \A i, j \in Idx(pts) : i # j => D2(pts[i], pts[j]) > 0
\* unit average energy, |mean |p|^2 - S^2| <= S^2 / 500   (each term divided by M first: no overflow)
RECURSIVE SumE(_, _, _)
SumE(pts, i, M) == IF i > Len(pts) THEN 0 ELSE (D2(pts[i], <<0, 0>>) \div M) + SumE(pts, i + 1, M)
UnitEnergy(pts, S) == LET e == SumE(pts, 1, Len(pts)) IN e - S * S <= (S * S) \div 500 /\ S * S - e <= (S * S) \div 500 + Len(pts)
\* nearest neighbours (distance within 1/250 of the minimum) differ in exactly one bit
GrayNeighbours(pts, labels) == LET dm == MinD2(pts) IN
    \A i, j \in Idx(pts) : (i < j /\ D2(pts[i], pts[j]) - dm <= dm \div 250) => PopC(labels[i] ^^ labels[j]) = 1
LabelModulatesToItsPoint(labels, modidx) == \A i \in 1..Len(labels) : modidx[labels[i] + 1] = i

\* ------------------------------------------------------------------ C05 round-trip laws
SeqEq(a, b) == a = b
DpskLaw(bits, out, b) == out = SubSeq(bits, b + 1, Len(bits))
\* offset QPSK: in-phase bits (odd positions) unchanged, quadrature bits (even positions) delayed by one symbol
OqpskLaw(bits, out) == /\ Len(out) = Len(bits)
                       /\ \A i \in 1..(Len(bits) \div 2) : out[2 * i - 1] = bits[2 * i - 1]
                       /\ \A i \in 2..(Len(bits) \div 2) : out[2 * i] = bits[2 * (i - 1)]

\* ------------------------------------------------------------------ C06
Nearest(pts, y, slack) == { i \in Idx(pts) : \A j \in Idx(pts) : D2(y, pts[i]) <= D2(y, pts[j]) + slack }
\* most significant bit first: bit k (1-based) of a b-bit label
BitOf(label, k, b) == (label \div (2 ^ (b - k))) % 2
MinD2Bit(pts, labels, y, k, b, v) == LET S == { D2(y, pts[i]) : i \in { a \in Idx(pts) : BitOf(labels[a], k, b) = v } }
                                     IN CHOOSE d \in S : \A e \in S : d <= e
Delta(pts, labels, y, k, b) == MinD2Bit(pts, labels, y, k, b, 1) - MinD2Bit(pts, labels, y, k, b, 0)
Abs(x) == IF x < 0 THEN -x ELSE x
Sgn(x) == IF x > 0 THEN 1 ELSE IF x < 0 THEN -1 ELSE 0
=============================================================================
