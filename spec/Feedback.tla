-------------------------------- MODULE Feedback --------------------------------
(***************************************************************************)
(* kaira.models.FeedbackChannelModel as a protocol between a transmitter    *)
(* (feedback processor, encoder), a forward channel, a receiver (decoder,   *)
(* feedback generator) and a feedback channel.  One action per component    *)
(* call, in the order the model makes them; the data are integers and the   *)
(* components the fixed arithmetic stubs below, so that every value that    *)
(* flows is determined by the input and the iteration count:                *)
(*                                                                           *)
(*   iteration 1 :  Encode(x) -> Forward -> Decode -> Generate -> FbChannel  *)
(*   iteration i > 1 : Process(stored feedback) -> Encode(x, state) -> ...   *)
(*                                                                           *)
(* The processor is not called in the first iteration and the encoder then  *)
(* gets no state; the feedback handed to the processor is the one that came *)
(* out of the feedback channel; the result lists every iteration, the       *)
(* feedback history, and the last decoded value (absent for 0 iterations).  *)
(***************************************************************************)
EXTENDS Naturals, Integers, Sequences, FiniteSets, TLC
CONSTANTS Inputs, MaxIter, Design       \* Design = "code" or, for the vacuity guard, "stale" (processor fed the feedback before its channel)
VARIABLES x, n, pc, it, st, enc, rec, dec, gen, fb, iters, calls
vars == <<x, n, pc, it, st, enc, rec, dec, gen, fb, iters, calls>>

M == 97
NoVal == 0 - 1
EncF(v, s) == ((3 * v) + (IF s = NoVal THEN 0 ELSE (5 * s) + 1)) % M
FwdF(v) == (v + 1) % M
DecF(v) == (2 * v) % M
GenF(d, o) == (d + (M - (o % M)) + 7) % M
FbF(v) == (v + 11) % M
ProcF(v) == ((v * v) + 1) % M

Init == /\ x \in Inputs /\ n \in 0..MaxIter
        /\ pc = "start" /\ it = 0 /\ st = NoVal /\ enc = NoVal /\ rec = NoVal /\ dec = NoVal /\ gen = NoVal /\ fb = NoVal
        /\ iters = <<>> /\ calls = <<>>

Call(c, a, b, o) == calls' = Append(calls, <<c, a, b, o>>)
Begin == /\ pc \in {"start", "stored"} /\ it < n
         /\ it' = it + 1
         /\ pc' = IF it = 0 THEN "encode" ELSE "process"
         /\ UNCHANGED <<x, n, st, enc, rec, dec, gen, fb, iters, calls>>
Process == /\ pc = "process"
           /\ LET a == IF Design = "stale" THEN gen ELSE fb IN st' = ProcF(a) /\ Call("processor", a, NoVal, ProcF(a))
           /\ pc' = "encode" /\ UNCHANGED <<x, n, it, enc, rec, dec, gen, fb, iters>>
Encode == /\ pc = "encode"
          /\ LET s == IF it = 1 THEN NoVal ELSE st IN enc' = EncF(x, s) /\ Call("encoder", x, s, EncF(x, s))
          /\ pc' = "forward" /\ UNCHANGED <<x, n, it, st, rec, dec, gen, fb, iters>>
Forward == /\ pc = "forward" /\ rec' = FwdF(enc) /\ Call("forward_channel", enc, NoVal, FwdF(enc))
           /\ pc' = "decode" /\ UNCHANGED <<x, n, it, st, enc, dec, gen, fb, iters>>
Decode == /\ pc = "decode" /\ dec' = DecF(rec) /\ Call("decoder", rec, NoVal, DecF(rec))
          /\ pc' = "generate" /\ UNCHANGED <<x, n, it, st, enc, rec, gen, fb, iters>>
Generate == /\ pc = "generate" /\ gen' = GenF(dec, x) /\ Call("feedback_generator", dec, x, GenF(dec, x))
            /\ pc' = "fbchannel" /\ UNCHANGED <<x, n, it, st, enc, rec, dec, fb, iters>>
FbChannel == /\ pc = "fbchannel" /\ fb' = FbF(gen) /\ Call("feedback_channel", gen, NoVal, FbF(gen))
             /\ pc' = "store" /\ UNCHANGED <<x, n, it, st, enc, rec, dec, gen, iters>>
Store == /\ pc = "store" /\ iters' = Append(iters, <<enc, rec, dec, fb>>)
         /\ pc' = "stored" /\ UNCHANGED <<x, n, it, st, enc, rec, dec, gen, fb, calls>>
Finish == /\ pc \in {"start", "stored"} /\ it = n /\ pc' = "done"
          /\ UNCHANGED <<x, n, it, st, enc, rec, dec, gen, fb, iters, calls>>
Next == Begin \/ Process \/ Encode \/ Forward \/ Decode \/ Generate \/ FbChannel \/ Store \/ Finish
Spec == Init /\ [][Next]_vars

(***************************************************************************)
(* Properties                                                               *)
(***************************************************************************)
Done == pc = "done"
CallCount == Done => Len(calls) = IF n = 0 THEN 0 ELSE 6 * n - 1
OneRecordPerIteration == Done => Len(iters) = n
\* every processor call is fed the feedback stored by the iteration before it
ProcessorSeesStoredFeedback == \A j \in DOMAIN calls : calls[j][1] = "processor" =>
    LET k == Cardinality({ m \in 1..j : calls[m][1] = "encoder" }) IN k >= 1 /\ k <= Len(iters) /\ calls[j][2] = iters[k][4]
\* the encoder gets a state exactly from the second iteration on, and it is the processor's latest output
EncoderState == \A j \in DOMAIN calls : calls[j][1] = "encoder" =>
    IF \A m \in 1..(j - 1) : calls[m][1] # "encoder" THEN calls[j][3] = NoVal
    ELSE j > 1 /\ calls[j - 1][1] = "processor" /\ calls[j][3] = calls[j - 1][4]
\* the data flows: each component consumes what the previous one produced
Dataflow == \A j \in 2..Len(calls) :
    /\ calls[j][1] = "forward_channel" => calls[j - 1][1] = "encoder" /\ calls[j][2] = calls[j - 1][4]
    /\ calls[j][1] = "decoder" => calls[j - 1][1] = "forward_channel" /\ calls[j][2] = calls[j - 1][4]
    /\ calls[j][1] = "feedback_generator" => calls[j - 1][1] = "decoder" /\ calls[j][2] = calls[j - 1][4] /\ calls[j][3] = x
    /\ calls[j][1] = "feedback_channel" => calls[j - 1][1] = "feedback_generator" /\ calls[j][2] = calls[j - 1][4]
Terminates == <>Done
=============================================================================
