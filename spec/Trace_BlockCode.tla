---------------------------- MODULE Trace_BlockCode ----------------------------
(***************************************************************************)
(* Validates traces recorded from kaira's block-code encoders and hard      *)
(* decoders (properties C01-C04, C02).  Construct publishes the object      *)
(* (n, k, G, H, advertised distance); the spec derives what it needs (a     *)
(* basis of the row space, distance layers) once and keeps it in `cur`.     *)
(* Later events refer to the current object.  Every clause is judged        *)
(* separately; a failing clause prints MISMATCH and the trace goes on.      *)
(***************************************************************************)
EXTENDS BlockCode, MacWilliams, Json, IOUtils

TLog == ndJsonDeserialize(IOEnv.TRACE_FILE)

VARIABLES l, cur
vars == <<l, cur>>
Chk(c, clause) == IF c THEN TRUE ELSE PrintT(<<"MISMATCH", TLog[l].tid, l, clause>>)

Init == l = 1 /\ cur = [n |-> 0]

Construct(e) ==
    LET L == NLimbs(e.n)
        shape == GeneratorShapeOK(e.G, e.n, e.k)
        B == IF shape THEN Basis(e.G) ELSE EmptyBasis
    IN /\ Chk(shape, "generator_matrix_shape")
       /\ Chk(shape => Cardinality(DOMAIN B) = e.k, "generator_full_rank_injective")
       /\ Chk((shape /\ e.hasH) => CheckRankOK(e.H, e.n, e.k), "check_matrix_rank_n_minus_k")
       /\ Chk((shape /\ e.hasH) => Orthogonal(e.G, e.H), "check_matrix_orthogonal_to_code")
       /\ cur' = [n |-> e.n, k |-> e.k, L |-> L, G |-> e.G, H |-> e.H, hasH |-> e.hasH, B |-> B, d |-> e.d,
                  t |-> IF e.t >= 0 THEN e.t ELSE IF e.d > 0 THEN (e.d - 1) \div 2 ELSE 0,
                  wf |-> shape /\ e.hasH /\ CheckRankOK(e.H, e.n, e.k) /\ Orthogonal(e.G, e.H),
                  layers |-> IF e.ml /\ shape THEN DistanceLayers(e.G, e.n) ELSE <<>>]

Advertise(e) ==
    LET f == FamilyNKD(e.family, e.params)
        dmin == IF cur.k <= e.enum_k THEN MinDistEnum(cur.G, cur.L) ELSE -1
        Gp == e.gpoly
        mw == dmin < 0 /\ e.dualB # <<>> /\ cur.n <= 63        \* the MacWilliams route applies
    IN /\ Chk(f[1] < 0 \/ f[1] = cur.n, "length_matches_family_formula")
       /\ Chk(f[2] < 0 \/ f[2] = cur.k, "dimension_matches_family_formula")
       /\ Chk(Cardinality(DOMAIN cur.B) = cur.k, "advertised_dimension_is_the_true_dimension_of_the_code")
       /\ Chk(f[3] = 0 \/ e.d = f[3], "advertised_distance_matches_family_formula")
       /\ Chk(e.rate6 = (cur.k * 1000000 + (cur.n \div 2)) \div cur.n \/ e.rate6 = (cur.k * 1000000) \div cur.n, "rate_is_k_over_n")
       /\ Chk(dmin < 0 \/ e.d <= 0 \/ dmin >= e.d, "true_distance_at_least_advertised")
       /\ Chk(dmin < 0 \/ ~e.dexact \/ dmin = e.d, "true_distance_equals_documented_exact_value")
       /\ Chk((dmin < 0 /\ e.d > 0 /\ e.d <= 5 /\ cur.wf /\ cur.n - cur.k <= 16) => NoLightCodeword(cur.H, cur.n, e.d),
              "true_distance_at_least_advertised")
       \* codes too large to enumerate: the true distance from the dual's weight distribution through the MacWilliams identity
       \* the sensor's output is judged on its own terms (one zero word, a power of two words in all, as many as the dual of the TRUE dimension
       \* has): a generator matrix of deficient rank is a verdict of the dimension clause above, not a malformed measurement
       /\ Chk(~mw \/ (DualWellFormed(e.dualB, cur.n, cur.n - e.dual_dim) /\ e.dual_dim = cur.n - Cardinality(DOMAIN cur.B)), "harness_dual_weight_distribution_malformed")
       /\ Chk((mw /\ e.d > 0) => NoWeightBelow(e.dualB, cur.n, e.d), "true_distance_at_least_advertised")
       /\ Chk((mw /\ e.d > 0 /\ e.dexact) => HasWeight(e.dualB, cur.n, e.d), "true_distance_equals_documented_exact_value")
       /\ Chk((mw /\ e.t >= 0) => NoWeightBelow(e.dualB, cur.n, 2 * e.t + 1), "advertised_correction_capability_within_half_the_true_distance")
       /\ Chk(dmin < 0 \/ e.t < 0 \/ 2 * e.t + 1 <= dmin, "advertised_correction_capability_within_half_the_true_distance")
       /\ Chk(e.cyclic => CyclicClosed(cur.G, cur.n, cur.B), "closed_under_cyclic_shifts")
       /\ Chk(Gp # <<-1>> => Divides({ j \in 0..cur.n : Gp[j + 1] = 1 }, {0, cur.n}), "generator_polynomial_divides_Xn_plus_1")
       /\ Chk((Gp # <<-1>> /\ e.cyclic) => \A i \in 1..cur.k : Divides({ j \in 0..cur.n : Gp[j + 1] = 1 }, Support(cur.G[i], cur.n)),
              "codewords_are_multiples_of_generator_polynomial")
       /\ Chk(e.perfect => SpherePacking(cur.n, cur.k, (e.d - 1) \div 2), "sphere_packing_bound_met_with_equality")
       /\ (IF dmin >= 0 \/ mw \/ e.d <= 0 \/ (e.d <= 5 /\ cur.wf /\ cur.n - cur.k <= 16) THEN TRUE
           ELSE PrintT(<<"NOTCOVERED", TLog[l].tid, l, "distance_not_decided_for_this_size">>))
       /\ UNCHANGED cur

Encode(e) == /\ Chk(e.c = Enc(e.m, cur.G, cur.L), "encoding_equals_message_times_generator")
             /\ UNCHANGED cur

Syndrome(e) == /\ Chk(~e.linear \/ ~cur.hasH \/ e.s = Syn(e.w, cur.H), "syndrome_equals_word_times_check_transpose")
               /\ Chk(e.zero <=> InSpan(e.w, cur.B), "zero_syndrome_iff_codeword")
               /\ UNCHANGED cur

Invert(e) == /\ Chk(~e.raised, "inverse_raised_on_a_codeword")
             /\ Chk(e.raised \/ e.mhat = e.m, "inverse_returns_the_message")
             /\ Chk(e.raised \/ e.syn_zero, "inverse_reports_zero_syndrome")
             /\ UNCHANGED cur

\* shape law: s \o <<b*k>>  ->  s \o <<b*n>> (encode) and back (invert); block j of the output is f(block j)
Layout(e) ==
    LET nin == Len(e.shape_in)
        kin == IF e.op = "encode" THEN cur.k ELSE cur.n
        kout == IF e.op = "encode" THEN cur.n ELSE cur.k
        b == e.shape_in[nin] \div kin
        okshape == /\ Len(e.shape_out) = nin
                   /\ \A i \in 1..(nin - 1) : e.shape_out[i] = e.shape_in[i]
                   /\ e.shape_out[nin] = b * kout
    IN /\ Chk(~e.raised, "documented_layout_raised")
       /\ Chk(e.raised \/ okshape, "last_dimension_scaled_by_n_over_k")
       /\ Chk(e.raised \/ ~okshape \/ (Len(e.ins) = Len(e.outs) /\
               \A j \in 1..Len(e.ins) : IF e.op = "encode" THEN e.outs[j] = Enc(e.ins[j], cur.G, cur.L)
                                                          ELSE e.ins[j] = Enc(e.outs[j], cur.G, cur.L)),
              "blockwise_on_every_block_of_the_layout")
       /\ UNCHANGED cur

Reject(e) == /\ Chk(e.raised <=> (e.last % e.block # 0), "error_iff_last_dimension_not_multiple_of_block")
             /\ UNCHANGED cur

Decode(e) == /\ Chk(Wt(e.e) > cur.t \/ (~e.raised /\ e.out = e.m), "corrects_every_pattern_within_capability")
             /\ Chk(e.errs = <<-1>> \/ e.raised \/ VXor(Enc(e.out, cur.G, cur.L), e.errs) = VXor(Enc(e.m, cur.G, cur.L), e.e),
                    "returned_error_pattern_explains_received_word")
             /\ UNCHANGED cur

DecodeML(e) == /\ Chk(~e.raised /\ Wt(VXor(Enc(e.out, cur.G, cur.L), e.r)) = DistToCode(cur.layers, e.r[1]),
                      "complete_decoder_returns_a_nearest_codeword")
               /\ UNCHANGED cur

Next == /\ l <= Len(TLog)
        /\ LET e == TLog[l] IN
             CASE e.ev = "Construct" -> Construct(e)
               [] e.ev = "Advertise" -> Advertise(e)
               [] e.ev = "Encode" -> Encode(e)
               [] e.ev = "Syndrome" -> Syndrome(e)
               [] e.ev = "Invert" -> Invert(e)
               [] e.ev = "Layout" -> Layout(e)
               [] e.ev = "Reject" -> Reject(e)
               [] e.ev = "Decode" -> Decode(e)
               [] e.ev = "DecodeML" -> DecodeML(e)
               [] OTHER -> Chk(FALSE, "unknown_event") /\ UNCHANGED cur
        /\ l' = l + 1
Spec == Init /\ [][Next]_vars
AllConsumed == TLCGet("stats").diameter = Len(TLog) + 1
=============================================================================
