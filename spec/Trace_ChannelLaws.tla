----------------------------- MODULE Trace_ChannelLaws -----------------------------
(* Validates records of PoissonChannel, PhaseNoiseChannel and PerfectChannel against ChannelLaws. *)
EXTENDS ChannelLaws, Sequences, Json, IOUtils
TLog == ndJsonDeserialize(IOEnv.TRACE_FILE)
VARIABLE l
Chk(c, clause) == IF c THEN TRUE ELSE PrintT(<<"MISMATCH", TLog[l].tid, l, clause>>)
Poisson(e) == IF e.raised THEN Chk(e.negative_input, "channel_raised_on_admissible_input") ELSE
    /\ Chk(~e.negative_input, "negative_real_input_is_rejected")
    /\ Chk(e.nonint = 0, "counts_are_integers_in_units_of_one_over_lambda")
    /\ Chk(e.negcount = 0, "counts_are_non_negative")
    /\ Chk(e.shape_ok, "output_shape_and_kind_equal_input")
    /\ Chk(e.mu_milli > 0 \/ e.sum = 0, "zero_rate_gives_zero_output")
    /\ Chk(e.phase_err_ppm <= 20, "complex_input_keeps_its_phase")
    /\ Chk(e.mu_milli = 0 \/ e.N < 100000 \/ PoissonSumOK(e.sum, e.N, e.mu_milli), "mean_count_equals_rate")
    /\ Chk(e.mu_milli = 0 \/ e.N < 100000 \/ PoissonVarOK(e.var_ppm, e.N, e.mu_milli), "count_variance_equals_rate")
Phase(e) == IF e.raised THEN Chk(FALSE, "channel_raised_on_admissible_input") ELSE
    /\ Chk(e.mag_err_ppm <= 5, "magnitude_preserved")
    /\ Chk(e.complex_out, "output_is_complex")
    /\ Chk(e.shape_ok, "output_shape_equals_input_shape")
    /\ Chk(e.sigma_milli > 0 \/ e.identity, "zero_phase_noise_is_the_identity")
    /\ Chk(e.sigma_milli = 0 \/ e.N < 100000 \/ PhaseVarOK(e.var_ppm, e.N), "phase_variance_equals_configured_value")
    /\ Chk(e.sigma_milli = 0 \/ e.N < 100000 \/ e.mean_ppm <= MeanBandPpm(e.N), "phase_noise_has_zero_mean")
Perfect(e) == IF e.raised THEN Chk(FALSE, "channel_raised_on_admissible_input") ELSE
    /\ Chk(e.identity, "perfect_channel_is_the_identity") /\ Chk(e.shape_ok, "output_shape_equals_input_shape")
\* nonlinear channel without noise: the output is the transfer function applied as the complex mode prescribes
\* (direct: f(x); cartesian: f(Re x) + j f(Im x); polar: f(|x|) with the phase of x)
Nonlinear(e) == IF e.raised THEN Chk(FALSE, "channel_raised_on_admissible_input") ELSE
    /\ Chk(e.err_ppm <= 50, "noise_free_output_is_the_transfer_function_in_the_configured_complex_mode")
    /\ Chk(e.mode # "polar" \/ e.phase_err_ppm <= 50, "polar_mode_keeps_the_phase")
    /\ Chk(e.shape_ok, "output_shape_and_kind_equal_input")
Init == l = 1
Next == /\ l <= Len(TLog)
        /\ LET e == TLog[l] IN
             CASE e.ev = "Poisson" -> Poisson(e) [] e.ev = "Phase" -> Phase(e) [] e.ev = "Perfect" -> Perfect(e) [] e.ev = "Nonlinear" -> Nonlinear(e)
               [] OTHER -> Chk(FALSE, "unknown_event")
        /\ l' = l + 1
Spec == Init /\ [][Next]_l
AllConsumed == TLCGet("stats").diameter = Len(TLog) + 1
=============================================================================
