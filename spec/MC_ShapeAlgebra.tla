----------------------------- MODULE MC_ShapeAlgebra -----------------------------
(* For every image size 8..96: the bundled stride-2/stride-2 encoder / decoder pairs restore exactly the sizes divisible by 4 (the admissible set is *)
(* derived, not assumed), the latent is h/4, and a transposed convolution undoes the matching convolution on those sizes.                            *)
EXTENDS ShapeAlgebra
VARIABLE h
Init == h \in 8..96
Next == UNCHANGED h
Spec == Init /\ [][Next]_h
AdmissibleIffMultipleOf4 == /\ Admissible(BourtEnc, BourtDec, h) <=> h % 4 = 0
                            /\ Admissible(KurkaEnc, KurkaDec, h) <=> h % 4 = 0
LatentIsQuarter == h % 4 = 0 => NetOut(h, BourtEnc) = h \div 4 /\ NetOut(h, KurkaEnc) = h \div 4
SameConvPreserves == ConvOut(h, 5, 1, 2) = h /\ TConvOut(h, 5, 1, 2, 0) = h
ReachOK == Reach({1}, { <<1, 2>>, <<2, 3>>, <<4, 5>> }) = {1, 2, 3}
=============================================================================
