-------------------------------- MODULE Registry --------------------------------
(***************************************************************************)
(* The name -> class registries of kaira (channels, constraints, losses,    *)
(* modulators, demodulators: re-registering a name overwrites the class in  *)
(* place; metrics, models: re-registering raises and changes nothing).      *)
(* State: the insertion-ordered map as a sequence of <<name, class>>.       *)
(* Get / Create raise for an absent name; List returns the names in         *)
(* insertion order.                                                         *)
(***************************************************************************)
EXTENDS Naturals, Sequences, FiniteSets, TLC
CONSTANTS Names, Classes, Policy, LawPolicy, MaxLen, Export   \* LawPolicy = Policy except in the vacuity guard
VARIABLES reg, hist
vars == <<reg, hist>>
Present(n) == \E i \in DOMAIN reg : reg[i][1] = n
Index(n) == CHOOSE i \in DOMAIN reg : reg[i][1] = n
ClassOf(n) == reg[Index(n)][2]
NamesInOrder == [i \in DOMAIN reg |-> reg[i][1]]
Init == reg = <<>> /\ hist = <<>>
\* history entries: <<op, name, class, raised, result>> ; result is a class for get / create, a sequence of names for list
Register(n, c) ==
    /\ IF Present(n)
       THEN IF Policy = "reject" THEN UNCHANGED reg ELSE reg' = [reg EXCEPT ![Index(n)] = <<n, c>>]
       ELSE reg' = Append(reg, <<n, c>>)
    /\ hist' = Append(hist, <<"register", n, c, Present(n) /\ Policy = "reject", <<>>>>)
Get(n) == UNCHANGED reg /\ hist' = Append(hist, <<"get", n, "", ~Present(n), IF Present(n) THEN <<ClassOf(n)>> ELSE <<>>>>)
Create(n) == UNCHANGED reg /\ hist' = Append(hist, <<"create", n, "", ~Present(n), IF Present(n) THEN <<ClassOf(n)>> ELSE <<>>>>)
List == UNCHANGED reg /\ hist' = Append(hist, <<"list", "", "", FALSE, NamesInOrder>>)
Next == /\ Len(hist) < MaxLen
        /\ \/ \E n \in Names, c \in Classes : Register(n, c)
           \/ \E n \in Names : Get(n) \/ Create(n)
           \/ List
Spec == Init /\ [][Next]_vars
NoDuplicateNames == \A i, j \in DOMAIN reg : i # j => reg[i][1] # reg[j][1]
\* declarative reading over the history: a lookup returns the class of the deciding registration of that name
Regs(j, n) == { i \in 1..(j - 1) : hist[i][1] = "register" /\ hist[i][2] = n }
Deciding(j, n) == IF LawPolicy = "reject" THEN CHOOSE i \in Regs(j, n) : \A k \in Regs(j, n) : i <= k
                  ELSE CHOOSE i \in Regs(j, n) : \A k \in Regs(j, n) : i >= k
LookupLaw == \A j \in 1..Len(hist) : hist[j][1] \in {"get", "create"} =>
    /\ hist[j][4] = (Regs(j, hist[j][2]) = {})
    /\ ~hist[j][4] => hist[j][5] = <<hist[Deciding(j, hist[j][2])][3]>>
\* a failed operation changes nothing: the next list equals the previous one
FailedOpsChangeNothing == \A j \in 2..Len(hist) : (hist[j][1] = "list" /\ hist[j - 1][4]) =>
    \A i \in 1..(j - 2) : (hist[i][1] = "list" /\ \A k \in (i + 1)..(j - 2) : hist[k][1] # "register" \/ hist[k][4]) => hist[i][5] = hist[j][5]
\* names are listed in order of their first registration
ListOrderLaw == \A j \in 1..Len(hist) : hist[j][1] = "list" =>
    LET L == hist[j][5] IN
    /\ \A a, b \in DOMAIN L : a < b => (CHOOSE i \in Regs(j, L[a]) : \A k \in Regs(j, L[a]) : i <= k) < (CHOOSE i \in Regs(j, L[b]) : \A k \in Regs(j, L[b]) : i <= k)
    /\ { L[a] : a \in DOMAIN L } = { n \in Names : Regs(j, n) # {} }
ExportInv == (Export /\ Len(hist) = MaxLen /\ hist[MaxLen][1] # "register") => PrintT(<<"RHIST", hist>>)
=============================================================================
