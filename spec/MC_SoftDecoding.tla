----------------------------- MODULE MC_SoftDecoding -----------------------------
(* Design-level checks of the soft-decoding oracle: on cycle-free graphs enough flooding min-sum iterations reproduce the sign of the     *)
(* max-log marginal decisions for clean inputs; Wagner's rule (flip the least reliable position when parity fails) equals brute-force soft ML. *)
EXTENDS SoftDecoding
VARIABLE y
N == 4
Vals == {-3, -2, -1, 1, 2, 3}
Init == y \in [1..N -> Vals]
Next == UNCHANGED y
Spec == Init /\ [][Next]_y
Hard(v) == [j \in 1..Len(v) |-> IF v[j] < 0 THEN 1 ELSE 0]
WagnerRule(v) == LET h == Hard(v) IN
                 IF Parity(h, 1..Len(v)) = 0 THEN h
                 ELSE LET j == CHOOSE j \in 1..Len(v) : \A i \in 1..Len(v) : Abs(v[j]) <= Abs(v[i]) IN [i \in 1..Len(v) |-> IF i = j THEN 1 - h[i] ELSE h[i]]
WagnerIsML == MLUnique(y) => Corr(WagnerRule(y), y, 1) = MLScore(y)
\* a path-shaped (cycle-free) code: x1+x2 = 0, x2+x3 = 0, x3+x4 = 0 (repetition of length 4)
HPath == << <<1,1,0,0>>, <<0,1,1,0>>, <<0,0,1,1>> >>
PathIsTree == CycleFree(HPath) /\ ~CycleFree(<< <<1,1,0,0>>, <<1,1,0,0>> >>)
\* min-sum on the path equals the sum of all inputs when all signs agree (clean input of the repetition code)
CleanMinSum == (\A j \in 1..N : Sgn(y[j]) = Sgn(y[1])) =>
                 \A j \in 1..N : Sgn(MinSumSoft(HPath, y, 4, 1, 1, 0)[j]) = Sgn(y[1])
=============================================================================
