------------------------------- MODULE Trace_Link -------------------------------
(***************************************************************************)
(* Validates per-stage records of real ChannelCodeModel runs (C09).  The    *)
(* Construct event publishes the code (as in Trace_BlockCode); each Link    *)
(* event carries, per block of the frame, the message, the encoder output,  *)
(* the fault the harness placed on the bit image, the hard image of the     *)
(* demodulator output and the decoder output - so a failure is localised to *)
(* a stage boundary.                                                        *)
(***************************************************************************)
EXTENDS BlockCode, Json, IOUtils
TLog == ndJsonDeserialize(IOEnv.TRACE_FILE)
VARIABLES l, cur
vars == <<l, cur>>
Chk(c, clause) == IF c THEN TRUE ELSE PrintT(<<"MISMATCH", TLog[l].tid, l, clause>>)
Init == l = 1 /\ cur = [n |-> 0]
Construct(e) == cur' = [n |-> e.n, k |-> e.k, L |-> NLimbs(e.n), G |-> e.G, t |-> e.t]
Link(e) ==
    LET nb == Len(e.msgs)
        admissible == \A j \in 1..nb : Wt(e.flips[j]) <= cur.t
    IN /\ Chk(~admissible \/ ~e.raised, "link_raised")
       /\ IF e.raised \/ ~admissible THEN TRUE ELSE
          /\ Chk(Len(e.cws) = nb /\ \A j \in 1..nb : e.cws[j] = Enc(e.msgs[j], cur.G, cur.L), "encoder_stage_emits_the_codewords")
          /\ Chk(e.nsym * e.bps = nb * cur.n, "modulator_stage_emits_bits_over_bits_per_symbol_symbols")
          /\ Chk(Len(e.rx) = nb /\ \A j \in 1..nb : e.rx[j] = VXor(e.cws[j], e.flips[j]), "demodulator_stage_returns_codeword_plus_fault")
          /\ Chk(Len(e.outs) = nb /\ \A j \in 1..nb : e.outs[j] = e.msgs[j], "link_returns_the_message")
       /\ UNCHANGED cur
Next == /\ l <= Len(TLog)
        /\ LET e == TLog[l] IN
             CASE e.ev = "Construct" -> Construct(e)
               [] e.ev = "Link" -> Link(e)
               [] OTHER -> Chk(FALSE, "unknown_event") /\ UNCHANGED cur
        /\ l' = l + 1
Spec == Init /\ [][Next]_vars
AllConsumed == TLCGet("stats").diameter = Len(TLog) + 1
=============================================================================
