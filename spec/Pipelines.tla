------------------------------- MODULE Pipelines -------------------------------
(***************************************************************************)
(* List model of kaira's configurable pipelines (ConfigurableModel /        *)
(* SequentialModel / DeepJSCCModel / ChannelCodeModel), and the call-order  *)
(* laws of BranchingModel, FeedbackChannelModel, MultipleAccessChannelModel *)
(* and ParallelModel's step list.                                           *)
(*                                                                         *)
(* A recording stage with id s maps a value v (a sequence of ids) to        *)
(* Append(v, s) and logs <<s, extra>> where extra is the token of the extra *)
(* arguments it was called with.                                            *)
(***************************************************************************)
EXTENDS Naturals, Sequences, FiniteSets, TLC

CONSTANTS Stages,     \* set of stage ids
          MaxLen,     \* bound on the history length (model checking / export only)
          Export

VARIABLES steps,      \* the declared stage list
          lastOut,    \* output of the last Run (<<>> if none)
          lastCalls,  \* call log of the last Run
          raised,     \* did the last operation raise
          hist        \* history (export only)

vars == <<steps, lastOut, lastCalls, raised, hist>>

Init == steps = <<>> /\ lastOut = <<>> /\ lastCalls = <<>> /\ raised = FALSE /\ hist = <<>>

RemoveAt(s, i) == [j \in 1..(Len(s) - 1) |-> IF j < i THEN s[j] ELSE s[j + 1]]

\* ------------------------------------------------------------------ pure laws
RunOut(st, x) == x \o st
RunCalls(st, extra) == [i \in 1..Len(st) |-> <<st[i], extra>>]

\* index (1-based) of the first TRUE in a sequence of booleans, 0 if none
FirstTrue(cs) == IF \E i \in 1..Len(cs) : cs[i]
                 THEN CHOOSE i \in 1..Len(cs) : cs[i] /\ \A j \in 1..(i - 1) : ~cs[j]
                 ELSE 0
\* conditions evaluated by a branching run: all up to and including the first true one
CondsEvaluated(cs) == IF FirstTrue(cs) = 0 THEN Len(cs) ELSE FirstTrue(cs)

\* one feedback round, T rounds: the first round has no feedback processing
Round(first) == IF first THEN <<"enc", "fwd", "dec", "gen", "fbch">>
                         ELSE <<"proc", "enc", "fwd", "dec", "gen", "fbch">>
RECURSIVE Rounds(_)
Rounds(t) == IF t = 0 THEN <<>> ELSE IF t = 1 THEN Round(TRUE) ELSE Rounds(t - 1) \o Round(FALSE)

\* multiple access with U users and D decoders (D = 1: joint)
MacCalls(U, D) == [i \in 1..U |-> <<"enc", i>>] \o << <<"constraint", 0>>, <<"channel", 0>> >>
                  \o [i \in 1..D |-> <<"dec", i>>]

\* ------------------------------------------------------------ list-model actions
AddStep(s) == /\ steps' = Append(steps, s)
              /\ raised' = FALSE
              /\ UNCHANGED <<lastOut, lastCalls>>
              /\ hist' = Append(hist, [op |-> "add", s |-> s, steps |-> steps'])

RemoveStep(i) == /\ IF i \in 1..Len(steps)
                    THEN steps' = RemoveAt(steps, i) /\ raised' = FALSE
                    ELSE steps' = steps /\ raised' = TRUE
                 /\ UNCHANGED <<lastOut, lastCalls>>
                 /\ hist' = Append(hist, [op |-> "remove", i |-> i, steps |-> steps', raised |-> raised'])

Run(extra) == /\ lastOut' = RunOut(steps, <<>>)
              /\ lastCalls' = RunCalls(steps, extra)
              /\ raised' = FALSE
              /\ UNCHANGED steps
              /\ hist' = Append(hist, [op |-> "run", extra |-> extra, out |-> lastOut', calls |-> lastCalls'])

Next == /\ Len(hist) < MaxLen
        /\ \/ \E s \in Stages : AddStep(s)
           \/ \E i \in 0..(Len(steps) + 1) : RemoveStep(i)
           \/ \E e \in {0, 7} : Run(e)

Spec == Init /\ [][Next]_vars

\* ---------------------------------------------------------------- properties
EachOnceInOrder == /\ Len(lastCalls) <= Len(steps) \/ TRUE
                   /\ (lastCalls # <<>> /\ ~raised) => TRUE
RunAgreesWithList == (hist # <<>> /\ hist[Len(hist)].op = "run") =>
                        /\ lastOut = steps
                        /\ Len(lastCalls) = Len(steps)
                        /\ \A i \in 1..Len(steps) : lastCalls[i][1] = steps[i]
LenLaw == \A i \in 1..Len(hist) : hist[i].op = "remove" => (hist[i].raised \/ TRUE)
FirstTrueLaw == \A cs \in UNION {[1..n -> BOOLEAN] : n \in 0..3} :
                   LET f == FirstTrue(cs) IN
                   /\ f = 0 <=> \A i \in 1..Len(cs) : ~cs[i]
                   /\ f > 0 => cs[f] /\ \A j \in 1..(f - 1) : ~cs[j]
RoundsLaw == \A t \in 0..5 : Len(Rounds(t)) = (IF t = 0 THEN 0 ELSE 6 * t - 1)

ExportInv == (Export /\ Len(hist) = MaxLen) => PrintT(<<"HIST", hist>>)
=============================================================================
