------------------------------- MODULE Pipelines -------------------------------
(***************************************************************************)
(* List model of kaira's configurable pipelines (ConfigurableModel /        *)
(* SequentialModel / DeepJSCCModel / ChannelCodeModel), and the call-order  *)
(* laws of BranchingModel, FeedbackChannelModel, MultipleAccessChannelModel *)
(* and ParallelModel's step list.                                           *)
(*                                                                         *)
(* A recording stage with id s maps a value v (a sequence of ids) to        *)
(* Append(v, s) and logs <<s, extra>> where extra is the token of the extra *)
(* arguments it was called with.                                            *)
(***************************************************************************)
EXTENDS PipelineLaws

CONSTANTS Stages,     \* set of stage ids
          MaxLen,     \* bound on the history length (model checking / export only)
          Export

VARIABLES steps,      \* the declared stage list
          lastOut,    \* output of the last Run (<<>> if none)
          lastCalls,  \* call log of the last Run
          raised,     \* did the last operation raise
          hist        \* history (export only)

vars == <<steps, lastOut, lastCalls, raised, hist>>

Init == steps = <<>> /\ lastOut = <<>> /\ lastCalls = <<>> /\ raised = FALSE /\ hist = <<>>

RemoveAt(s, i) == [j \in 1..(Len(s) - 1) |-> IF j < i THEN s[j] ELSE s[j + 1]]

\* ------------------------------------------------------------ list-model actions
AddStep(s) == /\ steps' = Append(steps, s)
              /\ raised' = FALSE
              /\ UNCHANGED <<lastOut, lastCalls>>
              /\ hist' = Append(hist, [op |-> "add", s |-> s, steps |-> steps'])

RemoveStep(i) == /\ IF i \in 1..Len(steps)
                    THEN steps' = RemoveAt(steps, i) /\ raised' = FALSE
                    ELSE steps' = steps /\ raised' = TRUE
                 /\ UNCHANGED <<lastOut, lastCalls>>
                 /\ hist' = Append(hist, [op |-> "remove", i |-> i, steps |-> steps', raised |-> raised'])

Run(extra) == /\ lastOut' = RunOut(steps, <<>>)
              /\ lastCalls' = RunCalls(steps, extra)
              /\ raised' = FALSE
              /\ UNCHANGED steps
              /\ hist' = Append(hist, [op |-> "run", extra |-> extra, out |-> lastOut', calls |-> lastCalls'])

Next == /\ Len(hist) < MaxLen
        /\ \/ \E s \in Stages : AddStep(s)
           \/ \E i \in 0..(Len(steps) + 1) : RemoveStep(i)
           \/ \E e \in {0, 7} : Run(e)

Spec == Init /\ [][Next]_vars

\* ---------------------------------------------------------------- properties


RunAgreesWithList == (hist # <<>> /\ hist[Len(hist)].op = "run") =>
                        /\ lastOut = steps
                        /\ Len(lastCalls) = Len(steps)
                        /\ \A i \in 1..Len(steps) : lastCalls[i][1] = steps[i]

FirstTrueLaw == \A cs \in UNION {[1..n -> BOOLEAN] : n \in 0..3} :
                   LET f == FirstTrue(cs) IN
                   /\ f = 0 <=> \A i \in 1..Len(cs) : ~cs[i]
                   /\ f > 0 => cs[f] /\ \A j \in 1..(f - 1) : ~cs[j]
RoundsLaw == \A t \in 0..5 : Len(Rounds(t)) = (IF t = 0 THEN 0 ELSE 6 * t - 1)

ExportInv == (Export /\ Len(hist) = MaxLen) => PrintT(<<"HIST", hist>>)
=============================================================================
