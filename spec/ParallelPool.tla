------------------------------ MODULE ParallelPool ------------------------------
(***************************************************************************)
(* kaira.models.generic.parallel.ParallelModel.forward as a state machine.  *)
(*                                                                         *)
(* N branches are submitted in declared order 1..N to a pool of W worker   *)
(* threads (FIFO start).  A branch *finishing* on its worker and the main  *)
(* thread *collecting* its future are separate, independently enabled      *)
(* steps: that is the race the property is about.  The main thread stores  *)
(* collected results in an insertion-ordered mapping (a Python dict), and  *)
(* finally hands a list to the aggregator.                                 *)
(*                                                                         *)
(* Design choice under test: HandOver = "declared" rebuilds the list in    *)
(* declared branch order; HandOver = "insertion" is the design that passes *)
(* list(dict.values()) (collection order) -- kept as a named alternative   *)
(* so that TLC demonstrates it violates AggregatorSeesDeclaredOrder.       *)
(***************************************************************************)
EXTENDS Naturals, Sequences, FiniteSets, TLC

CONSTANTS N, W, HandOver, Export

VARIABLES queue,      \* branches submitted but not started, FIFO
          running,    \* branches executing on a worker
          finished,   \* sequence of branches in finish order
          collected,  \* sequence of branches in the order the main thread took their results
          agg,        \* what the aggregator received (<<>> before Aggregate)
          phase       \* "run" | "done"

vars == <<queue, running, finished, collected, agg, phase>>

Range(s) == { s[i] : i \in DOMAIN s }
Res(b) == b                       \* branch b returns the token b: results are distinguishable
Name(b) == b                      \* branch names are distinct

Init == /\ queue = [i \in 1..N |-> i]
        /\ running = {}
        /\ finished = <<>>
        /\ collected = <<>>
        /\ agg = <<>>
        /\ phase = "run"

Start == /\ queue # <<>>
         /\ Cardinality(running) < W
         /\ running' = running \cup {Head(queue)}
         /\ queue' = Tail(queue)
         /\ UNCHANGED <<finished, collected, agg, phase>>

Finish(b) == /\ b \in running
             /\ running' = running \ {b}
             /\ finished' = Append(finished, b)
             /\ UNCHANGED <<queue, collected, agg, phase>>

Collect(b) == /\ phase = "run"
              /\ b \in Range(finished)
              /\ b \notin Range(collected)
              /\ collected' = Append(collected, b)
              /\ UNCHANGED <<queue, running, finished, agg, phase>>

\* the mapping returned to the caller when there is no aggregator: insertion-ordered pairs
Mapping == [i \in 1..Len(collected) |-> <<Name(collected[i]), Res(collected[i])>>]

Aggregate == /\ phase = "run"
             /\ Len(collected) = N
             /\ agg' = IF HandOver = "declared" THEN [i \in 1..N |-> Res(i)]
                                                ELSE [i \in 1..N |-> Mapping[i][2]]
             /\ phase' = "done"
             /\ UNCHANGED <<queue, running, finished, collected>>

Next == Start \/ (\E b \in 1..N : Finish(b) \/ Collect(b)) \/ Aggregate

Spec == Init /\ [][Next]_vars /\ WF_vars(Next)

----------------------------------------------------------------------------
TypeOK == /\ running \subseteq 1..N
          /\ Cardinality(running) <= W
          /\ Range(finished) \cap running = {}
          /\ Range(collected) \subseteq Range(finished)

\* The property (C17, parallel clause)
AggregatorSeesDeclaredOrder == phase = "done" => agg = [i \in 1..N |-> Res(i)]
MappingPairsOwnResult == \A i \in 1..Len(collected) : Mapping[i][2] = Res(Mapping[i][1])
NoLostBranch == phase = "done" => Range(collected) = 1..N /\ Len(collected) = N
Terminates == <>(phase = "done")

\* Behaviour export: every terminal state is one schedule class (finish order, collect order)
ExportInv == (Export /\ phase = "done") => PrintT(<<"SCHED", N, W, finished, collected, agg>>)
=============================================================================
