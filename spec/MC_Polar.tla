-------------------------------- MODULE MC_Polar --------------------------------
(* Design-level checks for C11: the butterfly equals the subset rule (= multiplication by the Kronecker power), the transform is an   *)
(* involution and commutes with bit reversal; SC (both regimes, both layouts) recovers every message from noise-free LLRs for every   *)
(* information mask of weight k - so the decoding clause is satisfiable for every (k, N), frozen value and interleaving option.        *)
EXTENDS Polar
CONSTANT N
VARIABLE u
Init == u \in [1..N -> {0, 1}]
Next == UNCHANGED u
Spec == Init /\ [][Next]_u
ButterflyIsKronecker == Transform(u) = SubsetRule(u)
Involution == Transform(Transform(u)) = u
ReversalCommutes == BitReverse(Transform(u)) = Transform(BitReverse(u))
\* read u as an information mask (weight k) and decode every message on it
Masks == IF \E j \in 1..N : u[j] = 1 THEN {u} ELSE {}
Msgs(k) == [1..k -> {0, 1}]
K == Cardinality({ j \in 1..N : u[j] = 1 })
CleanDecodes ==
    \A mask \in Masks : \A fz \in {0, 1} : \A il \in {FALSE, TRUE} : \A msg \in Msgs(K) :
        LET full == Place(msg, mask, fz)
            x == Encode(full, il)
            llr == [j \in 1..N |-> (1 - 2 * x[j]) * 3]
            lr == [j \in 1..N |-> LR((1 - 2 * x[j]) * 2)]
            \* the interleaved decoder consumes even/odd positions, which undoes the bit reversal of the encoder
            rmin == SCmin(llr, mask, fz, il)
            rsum == SCsum(lr, mask, fz, il)
        IN /\ ~rmin.tie /\ Extract(rmin.u, mask) = msg
           /\ ~rsum.tie /\ Extract(rsum.u, mask) = msg
=============================================================================
