---------------------------- MODULE MC_MacWilliams ----------------------------
(* The identity checked on dual pairs the specification constructs itself:      *)
(* repetition(r) / single parity check(r - 1), RM(r, m) / RM(m - r - 1, m), and  *)
(* the self-dual extended Golay code; both weight distributions by enumeration. *)
EXTENDS Families, MacWilliams
VARIABLES case, A, B, d      \* the weight distributions are computed once, in the initial state
Cases == { <<"rep", r, 0>> : r \in 2..9 } \cup { <<"rm", r, m>> : r \in 0..3, m \in 1..4 } \cup { <<"golay24", 0, 0>> }
Next == UNCHANGED <<case, A, B, d>>
Applicable(c) == c[1] # "rm" \/ c[2] < c[3]
N(c) == CASE c[1] = "rep" -> c[2] [] c[1] = "rm" -> 2 ^ c[3] [] OTHER -> 24
SetsC(c) == CASE c[1] = "rep" -> RepetitionSets(c[2]) [] c[1] = "rm" -> RMSets(c[2], c[3]) [] OTHER -> ExtendSets(CyclicSets(23, GolayG), 23)
SetsD(c) == CASE c[1] = "rep" -> SpcSets(c[2] - 1) [] c[1] = "rm" -> RMSets(c[3] - c[2] - 1, c[3]) [] OTHER -> ExtendSets(CyclicSets(23, GolayG), 23)
WD(S, n) == [w \in 1..(n + 1) |-> Cardinality({ c \in S : Wt(c) = w - 1 })]
Init == /\ case \in { c \in Cases : Applicable(c) }
        /\ A = WD(Span(RowsFromSets(SetsC(case), N(case)), NLimbs(N(case))), N(case))
        /\ B = WD(Span(RowsFromSets(SetsD(case), N(case)), NLimbs(N(case))), N(case))
        /\ d = MinDistEnum(RowsFromSets(SetsC(case), N(case)), NLimbs(N(case)))
Spec == Init /\ [][Next]_<<case, A, B, d>>
IdentityOK ==
    LET n == N(case)
        kC == Len(RowsFromSets(SetsC(case), n))
        kD == Len(RowsFromSets(SetsD(case), n))
    IN /\ kC + kD = n
       /\ DualWellFormed(B, n, kC)
       /\ \A q \in DOMAIN MWPrimes : \A j \in 0..n : Transformed(q, B, n, MWPrimes[q], j) = (((2 ^ kD) % MWPrimes[q]) * (A[j + 1] % MWPrimes[q])) % MWPrimes[q]
       /\ NoWeightBelow(B, n, d) /\ HasWeight(B, n, d)
       /\ \A j \in 1..n : HasWeight(B, n, j) <=> A[j + 1] > 0
=============================================================================
