------------------------------- MODULE MC_Order -------------------------------
(* Multiplicative order of a designated element by state exploration: one multiplication per TLC state *)
(* (depth up to 65535 for m = 16 - model checking, not recursion).  The element is primitive iff the    *)
(* walk returns to 1 after exactly 2^m - 1 steps; then the modulus is irreducible as well.              *)
EXTENDS Algebra
CONSTANTS M, Mod, Alpha
VARIABLES x, steps
Init == x = Alpha /\ steps = 1
Next == x # 1 /\ x' = FMul(x, Alpha, Mod, M) /\ steps' = steps + 1
Spec == Init /\ [][Next]_<<x, steps>>
ModulusShape == Deg(Mod) = M
NonZero == x # 0
OrderIsFull == (x = 1) => steps = P2(M) - 1
Bounded == steps <= P2(M) - 1
=============================================================================
