---- MODULE MC_ChannelLaws ----
(* Sanity of the integer band arithmetic: bands are positive, shrink with N, never overflow on the driver's grid, and accept the exact law. *)
EXTENDS ChannelLaws
VARIABLES n, mu
Ns == {100000, 1000000, 4000000}
Mus == {1, 10, 100, 500, 1000, 3000, 20000, 100000}
Init == n \in Ns /\ mu \in Mus
Next == UNCHANGED <<n, mu>>
Spec == Init /\ [][Next]_<<n, mu>>
BandsOK == /\ PoissonSumOK(ExpectedSum(n, mu), n, mu)
           /\ ~PoissonSumOK(ExpectedSum(n, mu) + 8 * Sqrt(ExpectedSum(n, mu)) + 8, n, mu)
           /\ PoissonVarBandPpm(n, mu) > 0 /\ PoissonVarBandPpm(n, mu) < 1000000
           /\ PoissonVarBandPpm(4000000, mu) <= PoissonVarBandPpm(100000, mu)
           /\ PoissonVarOK(1000000, n, mu)
           /\ PhaseVarBandPpm(n) > 0 /\ PhaseVarBandPpm(4000000) < PhaseVarBandPpm(100000)
====
