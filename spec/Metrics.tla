-------------------------------- MODULE Metrics --------------------------------
(***************************************************************************)
(* Streaming bit / block error-rate metrics (kaira.metrics.signal.ber,     *)
(* bler; SER / FER are aliases of the block metric).                        *)
(*                                                                         *)
(* A batch is a pair of equally long 0/1 sequences (transmitted, received) *)
(* - the flattened tensors; blocks are consecutive segments of B elements. *)
(* One BER object and one BLER object (block size B) are driven together.  *)
(***************************************************************************)
EXTENDS Naturals, Sequences, FiniteSets, TLC

CONSTANTS PoolX, PoolY,   \* sequences (indexed by batch id) of 0/1 sequences
          B,              \* block size; every batch length is a multiple of B
          MaxLen, Export, WithForward

VARIABLES tb, eb,         \* BER counters: total bits, error bits
          tbl, ebl,       \* BLER counters: total blocks, error blocks
          obs,            \* last observation: <<kind, num, den>> (a rational) or <<"none">>
          hist            \* history (export / invariants over the multiset since the last reset)

vars == <<tb, eb, tbl, ebl, obs, hist>>
Batches == 1..Len(PoolX)

\* ---------------------------------------------------------------- pure definitions
Diff(x, y) == { i \in 1..Len(x) : x[i] # y[i] }
Errs(x, y) == Cardinality(Diff(x, y))
NBlocks(x, bs) == Len(x) \div bs
BlockOf(i, bs) == ((i - 1) \div bs) + 1
ErrBlocks(x, y, bs) == Cardinality({ BlockOf(i, bs) : i \in Diff(x, y) })

\* rationals as <<num, den>>, den > 0
RLeq(p, q) == p[1] * q[2] <= q[1] * p[2]
REq(p, q) == p[1] * q[2] = q[1] * p[2]
Rate(e, t) == <<e, IF t = 0 THEN 1 ELSE t>>      \* compute() on an empty accumulator is 0

\* ---------------------------------------------------------------- actions
Init == tb = 0 /\ eb = 0 /\ tbl = 0 /\ ebl = 0 /\ obs = <<"none">> /\ hist = <<>>

Rec(op, arg) == [op |-> op, arg |-> arg, tb |-> tb', eb |-> eb', tbl |-> tbl', ebl |-> ebl', obs |-> obs']

Update(b) == /\ tb' = tb + Len(PoolX[b])
             /\ eb' = eb + Errs(PoolX[b], PoolY[b])
             /\ tbl' = tbl + NBlocks(PoolX[b], B)
             /\ ebl' = ebl + ErrBlocks(PoolX[b], PoolY[b], B)
             /\ obs' = <<"none">>
             /\ hist' = Append(hist, Rec("update", b))

Compute == /\ UNCHANGED <<tb, eb, tbl, ebl>>
           /\ obs' = <<"compute", Rate(eb, tb), Rate(ebl, tbl)>>
           /\ hist' = Append(hist, Rec("compute", 0))

Reset == /\ tb' = 0 /\ eb' = 0 /\ tbl' = 0 /\ ebl' = 0
         /\ obs' = <<"none">>
         /\ hist' = Append(hist, Rec("reset", 0))

\* one-shot evaluation: returns the batch's own rates and must not touch the accumulators
Forward(b) == /\ UNCHANGED <<tb, eb, tbl, ebl>>
              /\ obs' = <<"forward", Rate(Errs(PoolX[b], PoolY[b]), Len(PoolX[b])),
                                    Rate(ErrBlocks(PoolX[b], PoolY[b], B), NBlocks(PoolX[b], B))>>
              /\ hist' = Append(hist, Rec("forward", b))

Next == /\ Len(hist) < MaxLen
        /\ \/ \E b \in Batches : Update(b)
           \/ Compute
           \/ Reset
           \/ (WithForward /\ \E b \in Batches : Forward(b))

Spec == Init /\ [][Next]_vars

\* ---------------------------------------------------------------- properties
\* batches accumulated since the last reset, as a sequence of ids
RECURSIVE Since(_, _)
Since(h, n) == IF n = 0 THEN <<>>
               ELSE IF h[n].op = "reset" THEN <<>>
               ELSE IF h[n].op = "update" THEN Append(Since(h, n - 1), h[n].arg)
               ELSE Since(h, n - 1)
RECURSIVE Concat(_, _)
Concat(P, ids) == IF ids = <<>> THEN <<>> ELSE P[Head(ids)] \o Concat(P, Tail(ids))

\* streaming counters equal the one-shot counts on the concatenated data (partition independence)
EqualsOneShotOnConcatenation ==
    LET ids == Since(hist, Len(hist))
        X == Concat(PoolX, ids)
        Y == Concat(PoolY, ids)
    IN /\ tb = Len(X) /\ eb = Errs(X, Y)
       /\ tbl = NBlocks(X, B) /\ ebl = ErrBlocks(X, Y, B)

\* order independence follows: the counts of a concatenation do not depend on the order
OrderIndependent ==
    \A a, b \in Batches :
        /\ Errs(PoolX[a] \o PoolX[b], PoolY[a] \o PoolY[b]) = Errs(PoolX[b] \o PoolX[a], PoolY[b] \o PoolY[a])
        /\ ErrBlocks(PoolX[a] \o PoolX[b], PoolY[a] \o PoolY[b], B) = ErrBlocks(PoolX[b] \o PoolX[a], PoolY[b] \o PoolY[a], B)

Sandwich == /\ 0 <= eb /\ eb <= tb /\ 0 <= ebl /\ ebl <= tbl
            /\ tb = B * tbl
            /\ RLeq(Rate(eb, tb), Rate(ebl, tbl))                    \* BER <= BLER
            /\ RLeq(Rate(ebl, tbl), <<1, 1>>)                        \* BLER <= 1
            /\ RLeq(Rate(ebl, tbl), <<B * eb, IF tb = 0 THEN 1 ELSE tb>>)   \* BLER <= B * BER
ZeroIffEqual == (eb = 0 <=> \A i \in 1..Len(Since(hist, Len(hist))) :
                               PoolX[Since(hist, Len(hist))[i]] = PoolY[Since(hist, Len(hist))[i]])
                /\ (eb = 0 <=> ebl = 0)
Symmetric == \A b \in Batches : Errs(PoolX[b], PoolY[b]) = Errs(PoolY[b], PoolX[b])
                             /\ ErrBlocks(PoolX[b], PoolY[b], B) = ErrBlocks(PoolY[b], PoolX[b], B)
ResetRestoresInit == (hist # <<>> /\ hist[Len(hist)].op = "reset") => (tb = 0 /\ eb = 0 /\ tbl = 0 /\ ebl = 0)

ExportInv == (Export /\ Len(hist) = MaxLen) =>
    PrintT(<<"HIST", [i \in 1..Len(hist) |-> <<hist[i].op, hist[i].arg, hist[i].tb, hist[i].eb, hist[i].tbl, hist[i].ebl>>]>>)
=============================================================================
