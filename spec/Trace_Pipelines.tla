---------------------------- MODULE Trace_Pipelines ----------------------------
(***************************************************************************)
(* Validates a trace recorded from kaira's real pipeline models against the *)
(* laws of PipelineLaws.  One JSON event per model run; every clause is     *)
(* evaluated separately and a failing clause is reported, never fatal.      *)
(***************************************************************************)
EXTENDS PipelineLaws, Json, IOUtils

TLog == ndJsonDeserialize(IOEnv.TRACE_FILE)

VARIABLE l
Chk(c, clause) == IF c THEN TRUE ELSE PrintT(<<"MISMATCH", TLog[l].tid, l, clause>>)

SeqRun(e) == /\ Chk(e.out = RunOut(e.steps, <<>>), "stages_in_declared_order")
             /\ Chk(Len(e.calls) = Len(e.steps), "each_stage_exactly_once")
             /\ Chk(Len(e.calls) = Len(e.steps) => e.calls = RunCalls(e.steps, e.extra), "extra_args_forwarded")

BranchRun(e) == LET f == FirstTrue(e.conds) IN
    /\ Chk(e.raised <=> (f = 0 /\ ~e.hasdef), "error_iff_no_match_and_no_default")
    /\ Chk((f > 0) => e.ran = <<f>>, "first_true_branch_runs_alone")
    /\ Chk((f = 0 /\ e.hasdef) => e.ran = <<Len(e.conds) + 1>>, "default_branch_otherwise")
    /\ Chk((f = 0 /\ ~e.hasdef) => e.ran = <<>>, "nothing_runs_on_error")

FbRun(e) == /\ Chk(e.calls = Rounds(e.T), "rounds_in_order")
            /\ Chk(e.iterations = e.T, "exactly_max_iterations_rounds")

MacRun(e) == /\ Chk(e.calls = MacCalls(e.encs, e.D), "encoders_in_user_order_one_constraint_one_channel")
             /\ Chk(e.constraint_in = SumSeqs(e.encoded), "superposition_is_the_sum")
             \* the superposition is a new signal: the users' encoded signals and messages are what they were before the run
             /\ Chk(e.encoded_after = e.encoded, "encoded_signals_not_overwritten_by_the_superposition")
             /\ Chk(e.messages_unchanged, "messages_not_modified")

WzRun(e) == Chk(e.calls = WzCalls(e.hasQ, e.hasS, e.hasC, e.needCorr), "wyner_ziv_stage_order")

ParRun(e) == /\ Chk(e.agg = [i \in 1..e.N |-> i], "aggregator_sees_declared_order")
             /\ Chk(Len(e.pairs) = e.N /\ \A i \in 1..Len(e.pairs) : e.pairs[i] = <<i, i>>, "name_maps_to_own_result")

\* benchmarks.ParallelRunner: the pool of ParallelPool with HandOver = "insertion" - the result list is the collection order, which under a
\* gated schedule (one branch released at a time) is the finish order TLC chose; nothing is lost, duplicated or attributed to another benchmark
PoolRun(e) == /\ Chk(e.executed = [i \in 1..e.N |-> 1], "every_benchmark_executed_exactly_once")
              /\ Chk(Len(e.results) = e.N /\ { e.results[i] : i \in 1..Len(e.results) } = 1..e.N, "one_result_per_benchmark")
              /\ Chk(e.results = e.finish, "results_listed_in_completion_order")
              /\ Chk(\A i \in 1..Len(e.own) : e.own[i], "result_carries_its_benchmarks_identity")
              /\ Chk(e.accumulated, "runner_accumulates_results_across_calls")

Init == l = 1
Next == /\ l <= Len(TLog)
        /\ LET e == TLog[l] IN
             CASE e.ev = "SeqRun" -> SeqRun(e)
               [] e.ev = "BranchRun" -> BranchRun(e)
               [] e.ev = "FbRun" -> FbRun(e)
               [] e.ev = "MacRun" -> MacRun(e)
               [] e.ev = "WzRun" -> WzRun(e)
               [] e.ev = "ParRun" -> ParRun(e)
               [] e.ev = "PoolRun" -> PoolRun(e)
               [] OTHER -> Chk(FALSE, "unknown_event")
        /\ l' = l + 1
Spec == Init /\ [][Next]_l
AllConsumed == TLCGet("stats").diameter = Len(TLog) + 1
=============================================================================
