-------------------------------- MODULE Branching --------------------------------
(***************************************************************************)
(* kaira.models.generic.BranchingModel as a state machine: an insertion-    *)
(* ordered collection of named branches (name -> condition value), an       *)
(* optional default, and Run selecting the first branch whose condition     *)
(* holds.  Removing a name and adding it again moves it to the end (Python  *)
(* dict semantics); adding an existing name is an error and changes nothing.*)
(***************************************************************************)
EXTENDS Naturals, Sequences, FiniteSets, TLC
CONSTANTS Names, MaxLen, Export
VARIABLES order,     \* sequence of branch names in insertion order
          cond,      \* name -> BOOLEAN (the value its condition returns)
          hasdef, hist
vars == <<order, cond, hasdef, hist>>
Range(s) == { s[i] : i \in DOMAIN s }
Init == order = <<>> /\ cond = [n \in Names |-> FALSE] /\ hasdef = FALSE /\ hist = <<>>
RemoveName(s, n) == LET idx == { i \in DOMAIN s : s[i] # n } IN
                    [j \in 1..Cardinality(idx) |-> s[CHOOSE i \in idx : Cardinality({ k \in idx : k <= i }) = j]]
Selected == IF \E i \in DOMAIN order : cond[order[i]]
            THEN order[CHOOSE i \in DOMAIN order : cond[order[i]] /\ \A j \in 1..(i - 1) : ~cond[order[j]]]
            ELSE IF hasdef THEN "default" ELSE "error"
Add(n, c) == /\ IF n \in Range(order) THEN UNCHANGED <<order, cond>>
                ELSE order' = Append(order, n) /\ cond' = [cond EXCEPT ![n] = c]
             /\ UNCHANGED hasdef
             /\ hist' = Append(hist, [op |-> "add", n |-> n, c |-> c, raised |-> (n \in Range(order)), sel |-> ""])
Remove(n) == /\ IF n \in Range(order) THEN order' = RemoveName(order, n) ELSE UNCHANGED order
             /\ UNCHANGED <<cond, hasdef>>
             /\ hist' = Append(hist, [op |-> "remove", n |-> n, c |-> FALSE, raised |-> (n \notin Range(order)), sel |-> ""])
SetDefault == hasdef' = TRUE /\ UNCHANGED <<order, cond>> /\ hist' = Append(hist, [op |-> "default", n |-> "", c |-> FALSE, raised |-> FALSE, sel |-> ""])
Run == UNCHANGED <<order, cond, hasdef>> /\ hist' = Append(hist, [op |-> "run", n |-> "", c |-> FALSE, raised |-> (Selected = "error"), sel |-> Selected])
Next == /\ Len(hist) < MaxLen
        /\ \/ \E n \in Names, c \in BOOLEAN : Add(n, c)
           \/ \E n \in Names : Remove(n)
           \/ SetDefault
           \/ Run
Spec == Init /\ [][Next]_vars
NoDuplicates == \A i, j \in DOMAIN order : i # j => order[i] # order[j]
SelectedIsFirstTrue == Selected \in Range(order) => (cond[Selected] /\ \A i \in DOMAIN order : (order[i] = Selected) => \A j \in 1..(i - 1) : ~cond[order[j]])
ExportInv == (Export /\ Len(hist) = MaxLen /\ hist[MaxLen].op = "run") => PrintT(<<"BHIST", [i \in 1..Len(hist) |-> <<hist[i].op, hist[i].n, hist[i].c, hist[i].raised, hist[i].sel>>]>>)
=============================================================================
