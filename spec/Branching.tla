-------------------------------- MODULE Branching --------------------------------
(***************************************************************************)
(* kaira.models.generic.BranchingModel as a state machine: an insertion-    *)
(* ordered collection of named branches (name -> condition value), an       *)
(* optional default, and Run(x) selecting the first branch whose condition  *)
(* holds on the input x (a condition is the set of inputs it accepts; the   *)
(* selection depends on the current input only, not on earlier runs).  Removing a name and adding it again moves it to the end (Python  *)
(* dict semantics); adding an existing name is an error and changes nothing.*)
(***************************************************************************)
EXTENDS Naturals, Sequences, FiniteSets, TLC
CONSTANTS Names, Inputs, MaxLen, Export
VARIABLES order,     \* sequence of branch names in insertion order
          cond,      \* name -> SUBSET Inputs (the inputs on which its condition returns true)
          hasdef, hist
vars == <<order, cond, hasdef, hist>>
Range(s) == { s[i] : i \in DOMAIN s }
Init == order = <<>> /\ cond = [n \in Names |-> {}] /\ hasdef = FALSE /\ hist = <<>>
RemoveName(s, n) == LET idx == { i \in DOMAIN s : s[i] # n } IN
                    [j \in 1..Cardinality(idx) |-> s[CHOOSE i \in idx : Cardinality({ k \in idx : k <= i }) = j]]
Selected(x) == IF \E i \in DOMAIN order : x \in cond[order[i]]
               THEN order[CHOOSE i \in DOMAIN order : x \in cond[order[i]] /\ \A j \in 1..(i - 1) : x \notin cond[order[j]]]
               ELSE IF hasdef THEN "default" ELSE "error"
Add(n, c) == /\ IF n \in Range(order) THEN UNCHANGED <<order, cond>>
                ELSE order' = Append(order, n) /\ cond' = [cond EXCEPT ![n] = c]
             /\ UNCHANGED hasdef
             /\ hist' = Append(hist, [op |-> "add", n |-> n, c |-> c, x |-> 0, raised |-> (n \in Range(order)), sel |-> ""])
Remove(n) == /\ IF n \in Range(order) THEN order' = RemoveName(order, n) ELSE UNCHANGED order
             /\ UNCHANGED <<cond, hasdef>>
             /\ hist' = Append(hist, [op |-> "remove", n |-> n, c |-> {}, x |-> 0, raised |-> (n \notin Range(order)), sel |-> ""])
SetDefault == hasdef' = TRUE /\ UNCHANGED <<order, cond>> /\ hist' = Append(hist, [op |-> "default", n |-> "", c |-> {}, x |-> 0, raised |-> FALSE, sel |-> ""])
Run(x) == UNCHANGED <<order, cond, hasdef>> /\ hist' = Append(hist, [op |-> "run", n |-> "", c |-> {}, x |-> x, raised |-> (Selected(x) = "error"), sel |-> Selected(x)])
Next == /\ Len(hist) < MaxLen
        /\ \/ \E n \in Names, c \in SUBSET Inputs : Add(n, c)
           \/ \E n \in Names : Remove(n)
           \/ SetDefault
           \/ \E x \in Inputs : Run(x)
Spec == Init /\ [][Next]_vars
NoDuplicates == \A i, j \in DOMAIN order : i # j => order[i] # order[j]
SelectedIsFirstTrue == \A x \in Inputs : Selected(x) \in Range(order) =>
    (x \in cond[Selected(x)] /\ \A i \in DOMAIN order : (order[i] = Selected(x)) => \A j \in 1..(i - 1) : x \notin cond[order[j]])
\* the selection is a function of the current branches and the current input: two runs with the same input and no add / remove / default
\* between them select the same branch, whatever was run in between
SelectionHasNoMemory == \A i, j \in DOMAIN hist : (i < j /\ hist[i].op = "run" /\ hist[j].op = "run" /\ hist[i].x = hist[j].x
                                                    /\ \A k \in (i + 1)..(j - 1) : hist[k].op = "run") => hist[i].sel = hist[j].sel
ExportInv == (Export /\ Len(hist) = MaxLen /\ hist[MaxLen].op = "run") => PrintT(<<"BHIST", [i \in 1..Len(hist) |-> <<hist[i].op, hist[i].n, hist[i].c, hist[i].raised, hist[i].sel, hist[i].x>>]>>)
=============================================================================
