---- MODULE MC_Link ----
EXTENDS Link
====
