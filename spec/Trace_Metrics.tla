----------------------------- MODULE Trace_Metrics -----------------------------
(***************************************************************************)
(* Validates histories recorded from real BitErrorRate / BlockErrorRate     *)
(* objects (and the one-shot / benchmark-helper forms) against Metrics'     *)
(* definitions.  The accumulators are spec state, advanced by the spec's    *)
(* own counting of the logged bit sequences; logged counters and returned   *)
(* values are compared with them.  Values are logged as round(v * 10^5).    *)
(***************************************************************************)
EXTENDS Naturals, Integers, Sequences, FiniteSets, TLC, Json, IOUtils

TLog == ndJsonDeserialize(IOEnv.TRACE_FILE)

Diff(x, y) == { i \in 1..Len(x) : x[i] # y[i] }
BlockOf(i, bs) == ((i - 1) \div bs) + 1
\* complex form: a second pair of sequences (imaginary parts); real form logs xi = yi = <<>>
BitErrs(e) == Cardinality(Diff(e.x, e.y)) + Cardinality(Diff(e.xi, e.yi))
NBits(e) == Len(e.x) + Len(e.xi)
ElemDiff(e) == Diff(e.x, e.y) \cup Diff(e.xi, e.yi)
BlkErrs(e) == Cardinality({ BlockOf(i, e.B) : i \in ElemDiff(e) })
NBlks(e) == Len(e.x) \div e.B

Abs(a) == IF a < 0 THEN -a ELSE a
\* |v - num/den| <= 2e-5, with v logged as v5 = round(v * 1e5); den = 0 stands for rate 0
Close(v5, num, den) == LET d == IF den = 0 THEN 1 ELSE den IN Abs(v5 * d - num * 100000) <= 2 * d

VARIABLES l, tb, eb, tbl, ebl
vars == <<l, tb, eb, tbl, ebl>>
Chk(c, clause) == IF c THEN TRUE ELSE PrintT(<<"MISMATCH", TLog[l].tid, l, clause>>)

Init == l = 1 /\ tb = 0 /\ eb = 0 /\ tbl = 0 /\ ebl = 0

New(e) == tb' = 0 /\ eb' = 0 /\ tbl' = 0 /\ ebl' = 0        \* a fresh pair of metric objects

Update(e) == /\ tb' = tb + NBits(e) /\ eb' = eb + BitErrs(e)
             /\ tbl' = tbl + NBlks(e) /\ ebl' = ebl + BlkErrs(e)
             /\ Chk(e.c_tb < 0 \/ (e.c_tb = tb' /\ e.c_eb = eb'), "ber_counters_after_update")
             /\ Chk(e.c_tbl < 0 \/ (e.c_tbl = tbl' /\ e.c_ebl = ebl'), "bler_counters_after_update")

Compute(e) == /\ UNCHANGED <<tb, eb, tbl, ebl>>
              /\ Chk(Close(e.ber5, eb, tb), "ber_compute_equals_exact_fraction")
              /\ Chk(Close(e.bler5, ebl, tbl), "bler_compute_equals_exact_fraction")
              \* the sandwich is stated for one fixed block size B (in bits); e.B = 0: blocks of varying size, not claimed
              /\ Chk(e.B = 0 \/ e.ber5 <= e.bler5 + 2, "ber_le_bler")
              /\ Chk(e.bler5 <= 100000 + 2, "bler_le_1")
              /\ Chk(e.B = 0 \/ e.bler5 <= e.B * e.ber5 + 2 * e.B + 2, "bler_le_B_ber")

Reset(e) == /\ tb' = 0 /\ eb' = 0 /\ tbl' = 0 /\ ebl' = 0
            /\ Chk(e.c_tb < 0 \/ (e.c_tb = 0 /\ e.c_eb = 0), "ber_reset_restores_initial_state")
            /\ Chk(e.c_tbl < 0 \/ (e.c_tbl = 0 /\ e.c_ebl = 0), "bler_reset_restores_initial_state")

Forward(e) == /\ UNCHANGED <<tb, eb, tbl, ebl>>
              /\ Chk(Close(e.ber5, BitErrs(e), NBits(e)), "ber_forward_equals_exact_fraction")
              /\ Chk(Close(e.bler5, BlkErrs(e), NBlks(e)), "bler_forward_equals_exact_fraction")
              /\ Chk(Close(e.ber5s, BitErrs(e), NBits(e)) /\ Close(e.bler5s, BlkErrs(e), NBlks(e)), "symmetric_in_arguments")
              /\ Chk((e.ber5 = 0 <=> BitErrs(e) = 0) /\ (e.bler5 = 0 <=> BlkErrs(e) = 0), "zero_iff_inputs_agree")
              /\ Chk(e.c_tb < 0 \/ (e.c_tb = tb /\ e.c_eb = eb), "ber_forward_leaves_accumulator")
              /\ Chk(e.c_tbl < 0 \/ (e.c_tbl = tbl /\ e.c_ebl = ebl), "bler_forward_leaves_accumulator")
              /\ Chk(e.sum5 < 0 \/ e.sum5 = BlkErrs(e) * 100000, "bler_reduction_sum_counts_error_blocks")
              /\ Chk(e.none = <<-1>> \/ (Len(e.none) = NBlks(e) /\
                        \A j \in 1..Len(e.none) : (e.none[j] = 1) <=> (\E i \in ElemDiff(e) : BlockOf(i, e.B) = j)),
                     "bler_reduction_none_flags_each_block")

Helper(e) == /\ UNCHANGED <<tb, eb, tbl, ebl>>
             /\ Chk(Close(e.ber5, BitErrs(e), NBits(e)), "helper_ber_equals_exact_fraction")
             /\ Chk(Close(e.bler5, BlkErrs(e), NBlks(e)), "helper_bler_equals_exact_fraction")

Reject(e) == /\ UNCHANGED <<tb, eb, tbl, ebl>>
             /\ Chk(e.raised <=> (e.per_item % e.B # 0), "non_divisor_block_size_rejected")

Next == /\ l <= Len(TLog)
        /\ LET e == TLog[l] IN
             CASE e.ev = "New" -> New(e)
               [] e.ev = "Update" -> Update(e)
               [] e.ev = "Compute" -> Compute(e)
               [] e.ev = "Reset" -> Reset(e)
               [] e.ev = "Forward" -> Forward(e)
               [] e.ev = "Helper" -> Helper(e)
               [] e.ev = "Reject" -> Reject(e)
               [] OTHER -> Chk(FALSE, "unknown_event") /\ UNCHANGED <<tb, eb, tbl, ebl>>
        /\ l' = l + 1
Spec == Init /\ [][Next]_vars
AllConsumed == TLCGet("stats").diameter = Len(TLog) + 1
=============================================================================
