--------------------------------- MODULE ChannelLaws ---------------------------------
(***************************************************************************)
(* Laws of the remaining analogue channels.                                 *)
(*  Poisson: y ~ Poisson(lambda |x|): counts are non-negative integers      *)
(*  (integer multiples of 1/lambda when normalised), a zero input gives a   *)
(*  zero output, a complex input keeps its phase, a negative real input is  *)
(*  rejected; over N samples at rate mu the sum is within 7 sqrt(N mu) of   *)
(*  N mu and the sample variance within 7 sqrt((1/mu + 2)/N) (relative) of  *)
(*  mu (fourth-moment band of the Poisson law).                             *)
(*  Phase noise: y = x exp(j theta), theta ~ N(0, sigma^2): magnitudes are  *)
(*  preserved, sigma = 0 is the identity, a real input comes back complex,  *)
(*  the sample variance of theta is within 7 sqrt(2/N) (relative) of        *)
(*  sigma^2 and its mean within 7 sigma / sqrt(N) of 0.                     *)
(* Integers only: rates in 1/1000, ratios in ppm, N a multiple of 1000.     *)
(***************************************************************************)
EXTENDS NoiseLaw
AbsI(v) == IF v < 0 THEN -v ELSE v
\* expected sum N mu with mu in 1/1000 and N a multiple of 1000 (stays below 2^31 for N mu <= 2e9)
ExpectedSum(N, mu_milli) == (N \div 1000) * mu_milli
PoissonSumOK(sum, N, mu_milli) == AbsI(sum - ExpectedSum(N, mu_milli)) <= 7 * Sqrt(ExpectedSum(N, mu_milli)) + 7
\* relative 7-sigma band of the sample variance, in ppm:  7e6 sqrt((1/mu + 2) / N)
\*   = 7e6 sqrt(A / (1000 N)) with A = 1000 (1/mu + 2);  1000 / sqrt(1000) <= 32
PoissonVarBandPpm(N, mu_milli) == (((7000 * Sqrt((1000000 \div mu_milli) + 2000)) \div Sqrt(N)) + 1) * 32
PoissonVarOK(var_ppm, N, mu_milli) == AbsI(var_ppm - 1000000) <= PoissonVarBandPpm(N, mu_milli)
\* Gaussian phase: relative band of the sample variance 7 sqrt(2/N), in ppm, plus a float32 allowance
PhaseVarBandPpm(N) == (7000 * Sqrt(2000000)) \div Sqrt(N) + 200
PhaseVarOK(var_ppm, N) == AbsI(var_ppm - 1000000) <= PhaseVarBandPpm(N)
=============================================================================
