#!/bin/sh
# tools/validate_seed.sh <seed-dir-name> "<pytest targets>" : confirm a seeded change in a scratch worktree:
#  demo passes on the original, fails with the change, the named existing tests still pass with the change.
d=$1; tests=$2
wt=/tmp/wt/validate_$d
git -C /repo worktree add --detach $wt HEAD >/dev/null 2>&1 || exit 2
cd $wt
PYTHONPATH=$wt /venv/bin/python /verif/seeded/$d/demo.py >/tmp/vs_$d.orig.log 2>&1; r0=$?
git apply /verif/seeded/$d/patch.diff || { echo "patch does not apply"; cd /; git -C /repo worktree remove --force $wt; exit 2; }
PYTHONPATH=$wt /venv/bin/python /verif/seeded/$d/demo.py >/tmp/vs_$d.mut.log 2>&1; r1=$?
PYTHONPATH=$wt /venv/bin/python -m pytest -q -p no:cacheprovider -x -q $tests --deselect tests/models/fec/encoders/test_ldpc_code.py::TestLDPCCodeEncoder::test_initialization_from_database >/tmp/vs_$d.tests.log 2>&1; r2=$?
cd /; git -C /repo worktree remove --force $wt
echo "seed $d: demo on original exit=$r0 (want 0), demo with change exit=$r1 (want !=0), tests with change exit=$r2 (want 0): $(tail -1 /tmp/vs_$d.tests.log)"
