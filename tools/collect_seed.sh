#!/bin/sh
# tools/collect_seed.sh <seed-dir-name> : take a seed agent's result out of its scratch worktree (/tmp/wt/<name>/_seed) into seeded/<name>/,
# remove the worktree, and try the property's quick check on it (scratch worktree, /repo untouched).
d=$1; id=$(echo $d | cut -c1-3)
[ -f /tmp/wt/$d/_seed/patch.diff ] || { echo "no _seed/patch.diff for $d"; exit 2; }
mkdir -p /verif/seeded/$d && cp /tmp/wt/$d/_seed/patch.diff /tmp/wt/$d/_seed/demo.py /tmp/wt/$d/_seed/meta.json /verif/seeded/$d/ 2>/dev/null
git -C /repo worktree remove --force /tmp/wt/$d
exec /verif/tools/try_seed_wt.sh $id $d quick
