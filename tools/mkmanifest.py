#!/venv/bin/python
"""Writes /verif/MANIFEST.json from the table below (single place to keep it valid)."""
import json
import os

ROOT = os.path.dirname(os.path.dirname(os.path.abspath(__file__)))
ALL = ["C%02d" % i for i in range(1, 21)]

CLAIMED = {
    "C19": dict(
        category="other",
        text="Decided by TLC: (i) the shape contract - MC_ShapeAlgebra derives the admissible image sizes of the stride-2/stride-2 pairs for every size 8..96, and "
             "Trace_DeepJSCC checks every (transposed) convolution recorded by forward hooks against the size law, the end-to-end shape, bandwidth ratio, batch "
             "size and range for the bundled architectures x sizes {16,32,48,64} (+ inadmissible) x batches {1,2,5}; (ii) gradient flow as reachability - the "
             "autograd graph of a full DeepJSCC pipeline loss (600+ nodes) is exported and TLC computes the set reachable from the loss: every encoder parameter "
             "and the constraint / channel outputs must be in it. Sensor: float64 directional derivatives vs central finite differences under a frozen RNG for "
             "every analog channel and power constraint (real/complex, several shapes); TLC only applies the 0.2 % threshold.",
        design_ref="7/C19, 8",
        note="Agreement of autograd with finite differences is analysis and cannot be decided by an explicit-state model checker (level 'other'); Kurka2020 is "
             "run with its native 256 filters; NOMA / Wyner-Ziv image models reuse the Tung2022-Q2 blocks and are covered through them.",
        technique="TLA+ spec ShapeAlgebra + TLC: model checking of size arithmetic, trace validation of layer records and autograd-graph reachability; sensor gradient events"),
    "C08": dict(
        category="other",
        text="Sensor + specification: for every (constraint, target, real/complex, shape 1-D/(1,n)/(B,n)/3-D/4-D, signal family, input scale) the harness measures "
             "each batch item (power, element-wise output/input ratio, idempotence, rescale invariance, peak, PAPR, 20-dB occupancy) in ppm of the configured limit; "
             "Constraints.tla holds the contracts and every exemption (zero input, negligible power, sparse signals) and TLC takes the decisions "
             "(Trace_Constraints). Composition: MC_Constraints model-checks the fold law, and the result of random chains (total, average, peak, PAPR, "
             "per-antenna, identity stages; CompositeConstraint, combine_constraints, apply_constraint_chain) must equal sequential application; factory "
             "OFDM/MIMO composites are measured against all their limits on the final output; measure_signal_properties is checked against the definitions.",
        design_ref="7/C08, 8",
        note="Real-valued power/PAPR contracts cannot be explored by an explicit-state model checker: measurement events with a 2 ppm float32 allowance (level 'other').",
        technique="TLA+ contract module Constraints + TLC verdicts on sensor measurement events; model checking of the composition law"),
    "C07": dict(
        category="other",
        text="Sensor + specification: the harness measures the added noise y - f(x) of 10^6 samples per configuration (AWGN, Laplacian scale/power/SNR, nonlinear-with-"
             "noise, add_noise_for_snr; real/complex; signal powers over six decades; SNR -20..40 dB; three shapes) and quantises it to centi-dB / ppm; NoiseLaw.tla "
             "holds the law (power mode, SNR mode relative to the post-nonlinearity signal, scale mode per component, complex = sum of components) and the 7-sigma "
             "bands, and TLC takes every accept/reject decision (Trace_Channels). Exact clauses - verbatim supplied noise, same-seed sqrt(4^j) scaling, utility "
             "identities on a centi-dB grid, the library's SNR tools on channel outputs - need no statistics. MC_NoiseLaw checks the law module itself.",
        design_ref="7/C07, 8",
        note="A distributional law cannot be explored by an explicit-state model checker: binding is through measurement events (weakest form, hence level "
             "'other'); per-run false-alarm < 1e-9 (7 sigma, fourth-moment bands).",
        technique="TLA+ law module NoiseLaw + TLC verdicts on sensor measurement events (trace validation)"),
    "C12": dict(
        category="model_checking",
        text="MC_BinaryChannels model-checks the transition relations (total, closed over alphabet + erasure symbol, extremes allowed, band arithmetic overflow-"
             "free). For every (channel, probability incl. 0 and 1, alphabet, dtype, shape, erasure symbol) 10^6 symbols are pushed through the real channel and "
             "aggregated into the full transition-count table; Trace_Channels decides support / alphabet / p=0 identity / p=1 extreme / immutability / shape "
             "exactly on that table and the rate and lag-1 independence clauses from the counts against a 7-sigma binomial band in integer arithmetic.",
        design_ref="7/C12",
        note="Rates and independence are statistical (sensor counts, decision by TLC); every exact clause covers all 10^6 samples of each configuration.",
        technique="TLA+ spec BinaryChannels + TLC: model checking of the transition relations, trace validation of transition tables"),
    "C13": dict(
        category="model_checking",
        text="MC_FlatFading model-checks the block-index law i -> i div T for every (L, T) incl. non-divisors. Trace_Channels validates real fading channels: "
             "with caller-supplied csi and noise on Gaussian integers TLC recomputes h.x+n in complex integer arithmetic; with unit input and zero noise the "
             "logged gain ids must be constant exactly on the blocks of the partition law for every T in 1..L and distinct across blocks and batch items; shapes "
             "1-D/(B,L)/(B,C,H,W) are preserved; E|h|^2, the Rician K split (10^6 blocks) and the noise stage relative to the faded signal are sensor "
             "measurements judged against 7-sigma bands.",
        design_ref="7/C13",
        note="Unit mean-square gain is stated (and checked) for Rayleigh and Rician only; distinctness of independent draws assumes continuous distributions.",
        technique="TLA+ spec MC_FlatFading/Trace_Channels + TLC: model checking of the partition law, trace validation (exact structure, sensor statistics)"),
    "C09": dict(
        category="model_checking",
        text="MC_Link model-checks the chain Encode -> Modulate -> Constrain -> Channel{Ideal|Flip(<=t per block)|Displace} -> Demodulate -> Decode over a "
             "frame of lcm(n,bits/symbol)/n blocks: for every message frame and every admissible fault placement, delivery implies out = msg (and the frame "
             "is a whole number of symbols, and the chain terminates). Real ChannelCodeModel links for every (code, decoder) x memoryless modem pairing with "
             "matching interfaces are run with forward hooks on every stage and harness-placed faults (all single positions, all pairs for t=2, seeded "
             "triples, displacement < dmin/2); Trace_Link validates every stage boundary and the delivered message.",
        design_ref="7/C09",
        note="Memoryless modems only (differential/offset schemes change the frame length); identity constraint; soft links use noise_var = 1.",
        technique="TLA+ spec Link + TLC: model checking of the chain with independent fault actions, trace validation of per-stage records"),
    "C20": dict(
        category="model_checking",
        text="MC_Purity model-checks the purity law (the answer depends on the member only) for every call history over a pool of four members and shows "
             "that two named impure designs (position-dependent answer, stale cache) violate it. The 28 224 call histories TLC exports (two calls, batches "
             "of 1..3 members in every order with repetition, row and concatenated-block layouts) are sampled and replayed on 51 real components "
             "(encoders, inverses, hard and soft decoders, memoryless modems, per-item constraints), interleaved across two objects; Trace_Purity keeps the "
             "learnt member->result function as state and rejects any later disagreement, input mutation, or a raising single-sample call. Dense pools (all "
             "error patterns of weight <= 2 around a codeword, all sign patterns, all messages) are paired at random in one batch and fed one by one to a long-lived object.",
        design_ref="7/C20",
        note="Result ids are equivalence classes up to rtol 1e-5 / atol 1e-6; a layout may be rejected with an error (listed in the evidence) but never answered "
             "with different values.",
        technique="TLA+ spec Purity + TLC: design-level model checking, TLC-exported call histories replayed on the code, trace validation"),
    "C10": dict(
        category="model_checking",
        text="MC_SoftDecoding checks the oracle (Wagner's rule = brute-force soft ML on every tie-free vector; cycle-free test; flooding min-sum). "
             "Trace_Soft validates recorded decodings: clean LLRs of every codeword (BP exact/Taylor, min-sum plain/scaled/normalised/offset, Wagner, "
             "soft RM; several magnitudes, iteration counts, output shape); Wagner on arbitrary integer vectors against brute-force ML computed by TLC; BP "
             "soft output on tree-structured codes against the exact rational posterior on the ln2 lattice; min-sum soft output against the spec's "
             "flooding min-sum with rational alpha and integer beta, plus rescaling invariance.",
        design_ref="7/C10",
        note="Exact comparison only on lattices where the arithmetic is rational/integer (ln2 lattice |a|<=2, n<=7 for posteriors; integers in 1/320 units for "
             "min-sum, <=3 iterations); inputs with several maximum-likelihood codewords (ties) are judged too - any of them is accepted - and counted in the evidence; the sub-offset corner of offset min-sum is defined by the spec "
             "(a message weaker than the offset becomes zero) and judged like every other input.",
        technique="TLA+ spec SoftDecoding + TLC: exact-arithmetic oracle model checking, trace validation of recorded soft decodings"),
    "C11": dict(
        category="model_checking",
        text="MC_Polar model-checks, for every input / every information mask with N<=8 (16 for the transform), that the butterfly equals multiplication by "
             "the Kronecker power, is an involution and commutes with bit reversal, and that textbook SC (min-sum on integers, sum-product on the ln2 "
             "lattice, plain and interleaved) recovers every message from clean LLRs. Trace_Polar validates the real encoder (information mask = ranking "
             "selection with exactly k positions, generator matrix, codeword = transform of the placed message) for N up to 1024, SC and polar-BP on clean "
             "LLRs in both regimes, and SC on arbitrary inputs against the textbook rule (ties excluded by the spec).",
        design_ref="7/C11",
        note="The 5G reliability table is trusted data, identified structurally and by digest; sum-product SC is compared for N<=8 only (32-bit rationals).",
        technique="TLA+ spec Polar + TLC: exhaustive design-level model checking, trace validation of recorded encodings and decodings"),
    "C05": dict(
        category="model_checking",
        text="MC_ModemMemory model-checks the memory schemes (DPSK phase accumulator, OQPSK quadrature register, pi/4-QPSK rotation flag) under every "
             "sequence of Reset/SetMode/Modulate: after reset and in eval mode the round-trip law with its inherent start-up loss holds and eval calls "
             "never move the memory. For every scheme/order/option the real modulator+demodulator are driven over every bit group, every ordered symbol "
             "pair, long seeded sequences, 1-D and batched rows and reset/train/eval histories; each row is a RoundTrip event judged by Trace_Modem.",
        design_ref="7/C05",
        note="Nothing is demanded of training-mode calls or without a reset; the first OQPSK quadrature decision (reset value 0) is not compared.",
        technique="TLA+ spec Modem/MC_ModemMemory + TLC: state-machine model checking of the memory laws, trace validation of recorded round trips"),
    "C06": dict(
        category="model_checking",
        text="Received points are integers in units of 1/S, so Trace_Modem evaluates squared distances exactly: every recorded hard decision must carry the "
             "label of a nearest point; every recorded LLR must be positive/negative when the nearest 0-/1-labelled point is nearer, and LLR x noise variance "
             "must be kappa x (d1^2-d0^2) with one kappa>0 per scheme that TLC infers as an unlogged variable and then holds fixed, over noise variances "
             "spanning six decades, scalar and per-symbol. Grid, decision-boundary and random points for every scheme of C05.",
        design_ref="7/C06",
        note="Near-ties inside the rounding guard (slack) are accepted either way; the scale law has a 1% full-scale tolerance; differential / alternating "
             "schemes are driven on their decision variable (reference symbol 1, reset state).",
        technique="TLA+ spec Modem + TLC trace validation with an inferred (unlogged) scale variable"),
    "C14": dict(
        category="model_checking",
        text="MC_Gray proves on all n<2^16 that the spec's Gray maps are inverse bijections with unit-distance steps (and that the limb form agrees). "
             "Trace_Modem then validates, for every published constellation, label bijectivity, distinct points, unit energy, that each label modulates "
             "to its own point and Gray adjacency of all nearest-neighbour pairs, and validates the implementation's scalar and array Gray utilities on "
             "n<2^16 (all in thorough) and seeded n<2^60.",
        design_ref="7/C14",
        note="Points are scaled integers (|coordinate| <= 8000); nearest neighbours = within 0.4% of the minimum squared distance.",
        technique="TLA+ spec Gray/Modem + TLC: exhaustive model checking of the Gray algebra, trace validation of published constellations and utilities"),
    "C15": dict(
        category="model_checking",
        text="The product of all soft demodulators and all LLR consumers (thresholders in LLR mode, repetition soft-bit decoder, BP/min-sum/Wagner/SC/"
             "polar-BP/soft-RM decoders, llr_to_bits, sign_to_bin) is enumerated; for each pair and each bit sequence (exhaustive for short lengths) the "
             "consumer's output on the producer's noise-free LLRs is a Polarity event that Trace_Modem compares with the transmitted bits / messages; "
             "LLR->probability conversions are checked exactly on the ln2 lattice (P1 = 1/(1+2^a)).",
        design_ref="7/C15",
        note="Data-dependent thresholders are only driven where their own design separates the classes (equal magnitudes / outside the hysteresis band); "
             "Gray DPSK and Gray pi/4-QPSK producers are excluded because their labels disagree (separate findings), which is not a polarity question.",
        technique="TLA+ spec Modem (LLR convention) + TLC trace validation of the enumerated producer x consumer product"),
    "C18": dict(
        category="model_checking",
        text="MC_Algebra model-checks the spec's GF(2)[X] against the Euclidean-ring laws (all operand pairs) and its GF(2^m) against the field laws "
             "(all pairs / triples for small m); MC_Order walks, one multiplication per TLC state (65 535 states for m=16), the powers of the element "
             "the implementation designates as primitive under the modulus it publishes, for every m in 1..16. Trace_Algebra then validates the "
             "implementation's products, divisions, gcd/lcm, derivatives, field sums/products/powers/inverses/traces/conjugates/minimal polynomials "
             "against that arithmetic (exhaustive pairs for small sizes, seeded up to degree 200 and m = 16).",
        design_ref="7/C18",
        note="TLC 32-bit integers: operands of Poly events stay below degree 16, larger ones are exponent sets; field triples are covered at design level plus "
             "pairwise agreement of the implementation with the spec arithmetic.",
        technique="TLA+ spec Algebra + TLC: law model checking, order walk by state exploration, trace validation of recorded results"),
    "C01": dict(
        category="model_checking",
        text="MC_GF2 proves by exhaustive model checking (all matrix pairs, n<=5) the linear-algebra lemmas the verdict rests on (rank = dim of span, "
             "Enc onto/injective iff full rank, rank n-k + orthogonality => zero syndrome iff codeword). Every full-rank generator matrix of small "
             "shapes is enumerated by TLC and built in the real code; for every catalogue object (all families x parameters x information sets) "
             "the published G/H and recorded Encode/Syndrome calls are validated by Trace_BlockCode, which recomputes m.G, w.H^T and membership.",
        design_ref="7/C01",
        note="Published matrices are the object's claim; vectors above 30 bits use limbs; messages exhaustive for k<=8 (quick) / 12 (thorough), seeded above.",
        technique="TLA+ spec GF2/BlockCode + TLC: oracle model checking, TLC-enumerated generator matrices, trace validation of recorded calls"),
    "C02": dict(
        category="model_checking",
        text="MC_Decoding shows on the spec's own constructions that nearest-codeword decoding corrects every pattern of weight <= t and that the "
             "distance-layer oracle equals brute-force search. For every (code, decoder) pairing the real decoder is run on all codewords x all "
             "error patterns of weight <= t (exhaustive when small, seeded per weight above) and on arbitrary words; Trace_BlockCode decides out = m, "
             "the returned error pattern, and minimality of the distance to the code from the published generator matrix.",
        design_ref="7/C02",
        note="t from the advertised distance; ML clause for n<=12 (quick) / 16 (thorough); BCH mu<=4 quick, <=5 thorough; n<=31.",
        technique="TLA+ spec BlockCode/Families + TLC: design-level model checking of decoding rules, trace validation of recorded decodings"),
    "C03": dict(
        category="model_checking",
        text="MC_Families shows the spec's own constructions of every family have exactly the closed-form (n,k,d), are cyclic / divisible by g(X) and "
             "meet the sphere-packing bound. For every catalogue object TLC computes the true minimum distance from the published generator matrix "
             "(exhaustive enumeration for k<=16; above that, for n-k<=20, from the dual's weight distribution through the MacWilliams identity in modular "
             "arithmetic - MC_MacWilliams checks the transform on the spec's own dual pairs; H-column independence for d<=5 otherwise), cyclic closure, "
             "g | X^n+1, divisibility and perfection.",
        design_ref="7/C03",
        note="Distance undecided (reported NOTCOVERED by the spec) when k>16, n-k>20 and d>5 (outside the property's own quantifier); the dual's weight "
             "distribution is a harness measurement on the published generator matrix.",
        technique="TLA+ spec Families/BlockCode + TLC: design-level model checking of constructions, trace validation of advertised parameters"),
    "C04": dict(
        category="model_checking",
        text="For every catalogue object and every inverse method (inverse_encode, extract_message, project_word) the recorded message -> codeword -> "
             "message round trips, all layouts (1-D, (B,.), (B1,B2,.), 1..4 blocks) and rejections are validated by Trace_BlockCode: each block is "
             "recomputed with Enc(m,G) from the published generator matrix and the shape law is evaluated by TLC.",
        design_ref="7/C04",
        note="GF(2) oracle checked by MC_GF2; messages exhaustive for k<=8 (quick) / 12 (thorough).",
        technique="TLA+ spec BlockCode + TLC trace validation of recorded round trips and layouts"),
    "C16": dict(
        category="model_checking",
        text="TLC checks partition/order independence, the BER<=BLER<=min(1,B*BER) sandwich, symmetry and reset on every history of "
             "update/compute/reset/forward up to length 6 over pools of batches (Metrics.tla); every exported history is replayed on real "
             "BitErrorRate/BlockErrorRate objects with the counters compared after each step; long random histories recorded from the "
             "real objects (real/complex, shapes, dtypes, reductions, helpers, rejections) are validated by Trace_Metrics.",
        design_ref="7/C16",
        note="Inputs are exact 0/1 tensors (thresholding unambiguous); blocks are contiguous segments of a batch item; values compared to 2e-5.",
        technique="TLA+ spec Metrics + TLC exhaustive histories; spec->code history replay and code->spec trace validation"),
    "C17": dict(
        category="model_checking",
        text="TLC explores every interleaving of Start/Finish/Collect of the ParallelPool specification (N<=5 branches, every pool size) "
             "and every add/remove/run history of the Pipelines list model; every schedule class and history TLC exports is replayed on "
             "the real models (gated threads + forced collection order) and the recorded outcomes are validated by Trace_Pipelines; "
             "Branching histories (add / remove / default / run(x), conditions as sets of accepted inputs) are replayed on the real BranchingModel.",
        design_ref="7/C17",
        note="Trusts CPython's ThreadPoolExecutor FIFO start order and that as_completed may yield finished futures in any order; "
             "branch bodies are abstracted to Start/Finish.",
        technique="TLA+ spec ParallelPool/Pipelines + TLC exhaustive schedules; spec->code replay and code->spec trace validation"),
}

NOT_YET = "not claimed: check not built in this framework (see DESIGN.md section 12 build order); not claimed until it passes on the unchanged tree"

def main():
    checks = []
    for pid in ALL:
        if pid not in CLAIMED:
            continue
        c = CLAIMED[pid]
        checks.append({
            "property_id": pid,
            "quick_cmd": "./check %s --tier quick" % pid,
            "thorough_cmd": "./check %s --tier thorough" % pid,
            "evidence_file": "/verif/evidence/%s.json" % pid,
            "replay_cmd_template": "./check %s --replay {path}" % pid,
            "engine": "tlc",
            "level_claimed": {"category": c["category"], "text": c["text"], "design_ref": c["design_ref"]},
            "level_note": c["note"],
            "technique": c["technique"],
        })
    na = [{"property_id": p, "reason": NOT_YET} for p in ALL if p not in CLAIMED]
    m = {
        "version": 1,
        "setup_cmd": "./setup.sh",
        "hooks": {
            "guard": "KAIRA_VERIF",
            "enable": "no source hooks are needed: kaira is a sequential library whose abstract state is visible through its public API; "
                      "checks import kaira from /repo's working tree (KAIRA_VERIF=1 is exported for forward compatibility)",
            "baseline_off_cmd": "cd /repo && env -u KAIRA_VERIF /venv/bin/python -m pytest -ra -q -p no:cacheprovider --timeout=900 --continue-on-collection-errors",
            "source_commits": [],
            "add_only": True,
        },
        "engines": [{"name": "tlc", "path": "/verif/spec", "serves_properties": sorted(CLAIMED),
                     "kind_free_text": "explicit TLA+ specifications checked with TLC 1.8 (model checking, behaviour export, trace validation); "
                                       "Python harness /verif/kv drives the real kaira code"}],
        "checks": checks,
        "not_applicable": na,
        "notes": "Known findings and fixed defects: /verif/known_findings.json. Design: /verif/DESIGN.md.",
    }
    with open(os.path.join(ROOT, "MANIFEST.json"), "w") as f:
        json.dump(m, f, indent=1)
    print("MANIFEST.json: %d claimed, %d not_applicable" % (len(checks), len(na)))

if __name__ == "__main__":
    main()
