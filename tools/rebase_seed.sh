#!/bin/sh
# tools/rebase_seed.sh <seed-dir> <fix-commit> : the seed was written against the tree before <fix-commit> touched the same lines.
# Rebuild it against the current HEAD: revert that commit in a scratch worktree, apply the seed, and diff against HEAD.
d=$1; c=$2; wt=/tmp/wt/rebase_$d
git -C /repo worktree add --detach $wt HEAD >/dev/null 2>&1 || exit 2
cd $wt && git revert -n $c >/dev/null 2>&1 && git apply /verif/seeded/$d/patch.diff && git diff HEAD -- kaira > /verif/seeded/$d/patch.rebased.diff
rc=$?
cd /; git -C /repo worktree remove --force $wt
[ $rc = 0 ] && cp /verif/seeded/$d/patch.diff /verif/seeded/$d/patch.original.diff && mv /verif/seeded/$d/patch.rebased.diff /verif/seeded/$d/patch.diff && echo "rebased $d"
exit $rc
