#!/bin/sh
# tools/run_all.sh [tier] [seed]: run every registered check and the extended-coverage checks (X..) (4 in parallel) and print one line each; exit 1 if any did not hold
tier=${1:-quick}; seed=${2:-0}
cd /verif
mkdir -p /tmp/kv_runall
ls kv/[cx][0-9][0-9].py | sed "s/.*\([cx]\)\([0-9][0-9]\).py/\1\2/" | tr cx CX | xargs -P 4 -I{} sh -c "VERIF_SEED=$seed ./check {} --tier $tier > /tmp/kv_runall/{}.log 2>&1; echo \"{} exit=\$? \$(tail -1 /tmp/kv_runall/{}.log | cut -c1-120)\"" | sort | tee /tmp/kv_runall/summary.txt
! grep -v "exit=0" /tmp/kv_runall/summary.txt > /dev/null
