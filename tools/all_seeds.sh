#!/bin/sh
# tools/all_seeds.sh [tier] : run every seeded change against the check of its property (sequentially; /repo is patched and restored each time)
tier=${1:-quick}
cd /verif
for d in seeded/*/; do
  n=$(basename $d); id=$(echo $n | cut -c1-3)
  out=$(tools/try_seed.sh $id $n $tier 2>&1 | grep "^check\|patch does not" | head -2 | tr '\n' ' ')
  echo "$n: $out"
done
