#!/bin/sh
# tools/try_seed.sh <Cxx> [seed-dir-name] [tier] : apply a seeded change to /repo, run the check, undo the change.
id=$1; d=${2:-$1}; tier=${3:-quick}
cd /repo || exit 2
git diff --quiet || { echo "/repo has local changes; refusing"; exit 2; }
git apply /verif/seeded/$d/patch.diff || { echo "patch does not apply"; exit 2; }
cd /verif && ./check $id --tier $tier > /tmp/try_seed_$d.log 2>&1; rc=$?
git -C /repo checkout -- . 
echo "check $id on seeded/$d: exit $rc"; grep -A3 "^VIOLATION" /tmp/try_seed_$d.log | head -12; tail -1 /tmp/try_seed_$d.log
exit $rc
