#!/bin/sh
# tools/regression_seeds.sh : for every "fix:" commit in /repo, build the reverse patch (the defect coming back) under seeded/regressions/<sha>/patch.diff
# and record which property the fix belongs to (from known_findings.json "fixed" entries). Patches that no longer apply in reverse to HEAD are skipped.
mkdir -p /verif/seeded/regressions
cd /repo
for sha in $(git log --format=%h --grep='^fix:' ); do
  d=/verif/seeded/regressions/$sha
  mkdir -p $d
  git diff $sha $sha^ > $d/patch.diff
  if git apply --check $d/patch.diff 2>/dev/null; then
    git log -1 --format=%s $sha > $d/subject.txt
  else
    rm -rf $d
    echo "skip $sha (reverse patch does not apply to HEAD): $(git log -1 --format=%s $sha | cut -c1-80)"
  fi
done
ls /verif/seeded/regressions | wc -l
