#!/bin/sh
# tools/try_seed_wt.sh <Cxx> [seed-dir-name] [tier] : like try_seed.sh, but on a scratch worktree of /repo HEAD (KV_REPO), so that
# several seeds can be tried in parallel and /repo itself is never touched. Evidence is not rewritten. TRY_SEED=<n> selects the check's random seed.
id=$1; d=${2:-$1}; tier=${3:-quick}
wt=/tmp/wt/try_$d
git -C /repo worktree add --detach $wt HEAD >/dev/null 2>&1 || exit 2
( cd $wt && git apply /verif/seeded/$d/patch.diff ) || { echo "patch does not apply: $d"; git -C /repo worktree remove --force $wt; exit 2; }
cd /verif && KV_REPO=$wt ./check $id --tier $tier --seed ${TRY_SEED:-0} > /tmp/try_seed_$d.log 2>&1; rc=$?
git -C /repo worktree remove --force $wt
echo "check $id on seeded/$d: exit $rc"; grep -A2 "^VIOLATION" /tmp/try_seed_$d.log | cut -c1-260 | head -9; tail -1 /tmp/try_seed_$d.log
exit $rc
