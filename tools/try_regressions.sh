#!/bin/sh
# tools/try_regressions.sh [tier] : re-introduce each repaired defect (reverse patch of a "fix:" commit) in a scratch worktree and run the check(s)
# of the property it belongs to; every line must end in exit=1 (the violation is reported again). 4 in parallel.
tier=${1:-quick}
cd /verif
mkdir -p /tmp/kv_regr
/venv/bin/python - <<'PY' > /tmp/kv_regr/jobs.txt
import json
idx = json.load(open('/verif/seeded/regressions/index.json'))
for sha, v in sorted(idx.items()):
    for p in v["properties"]:
        print(sha, p)
PY
cat /tmp/kv_regr/jobs.txt | xargs -P 4 -L 1 sh -c '
sha=$0; prop=$1; wt=/tmp/wt/regr_${sha}_$prop
git -C /repo worktree add --detach $wt HEAD >/dev/null 2>&1 || exit 0
( cd $wt && git apply /verif/seeded/regressions/$sha/patch.diff ) || { echo "$sha $prop patch does not apply"; git -C /repo worktree remove --force $wt; exit 0; }
cd /verif && KV_REPO=$wt ./check $prop --tier '$tier' > /tmp/kv_regr/${sha}_$prop.log 2>&1; rc=$?
git -C /repo worktree remove --force $wt
echo "$sha $prop exit=$rc $(grep -m1 -A1 "^VIOLATION" /tmp/kv_regr/${sha}_$prop.log | tail -1 | cut -c1-110)"
' | sort | tee /tmp/kv_regr/summary.txt
! grep -v "exit=1" /tmp/kv_regr/summary.txt > /dev/null
