#!/venv/bin/python
"""Confirm every seeded change in a scratch worktree of /repo HEAD: the demo passes on the original, fails with the change,
and the named existing tests still pass with the change. Writes the outcome into seeded/<id>/meta.json ("confirmed")."""
import json, os, subprocess, sys, shutil
TESTS = {"C01": "tests/models/fec tests/benchmarks", "C02": "tests/models/fec tests/benchmarks", "C03": "tests/models/fec tests/benchmarks", "C04": "tests/models/fec tests/benchmarks",
         "C05": "tests/modulations", "C06": "tests/modulations", "C07": "tests/channels tests/utils tests/metrics/signal tests/metrics/test_signal_metrics.py",
         "C08": "tests/constraints", "C09": "tests/models/test_models_channel_code.py tests/models/test_models_generic.py tests/channels tests/modulations tests/models/fec",
         "C10": "tests/models/fec tests/benchmarks", "C11": "tests/models/fec", "C12": "tests/channels", "C13": "tests/channels", "C14": "tests/modulations",
         "C15": "tests/modulations tests/models/binary tests/models/fec/decoders", "C16": "tests/metrics/test_signal_metrics.py tests/metrics/signal tests/benchmarks",
         "C17": "tests/models/test_models_generic.py tests/models/test_models_base.py tests/models/test_models_feedback_channel.py tests/models/test_models_mac.py tests/models/test_models_wyner_ziv.py",
         "C18": "tests/models/fec", "C19": "tests/models/test_models_deepjscc.py tests/models/test_models_image_bourtsoulatze2019_deepjscc.py tests/channels tests/constraints",
         "C20": "tests/models/fec tests/modulations tests/constraints"}
DESEL = "--deselect tests/models/fec/encoders/test_ldpc_code.py::TestLDPCCodeEncoder::test_initialization_from_database"
only = sys.argv[1:]
for d in sorted(os.listdir("/verif/seeded")):
    if only and d not in only:
        continue
    sd = os.path.join("/verif/seeded", d)
    meta = json.load(open(os.path.join(sd, "meta.json")))
    wt = "/tmp/wt/confirm_" + d
    subprocess.run(["git", "-C", "/repo", "worktree", "add", "--detach", wt, "HEAD"], stdout=subprocess.DEVNULL, stderr=subprocess.DEVNULL)
    env = dict(os.environ, PYTHONPATH=wt)
    r0 = subprocess.run(["/venv/bin/python", os.path.join(sd, "demo.py")], cwd=wt, env=env, stdout=subprocess.DEVNULL, stderr=subprocess.DEVNULL).returncode
    ap = subprocess.run(["git", "apply", os.path.join(sd, "patch.diff")], cwd=wt).returncode
    conf = {"repo_head": subprocess.run(["git", "-C", "/repo", "rev-parse", "--short", "HEAD"], stdout=subprocess.PIPE, text=True).stdout.strip(), "patch_applies": ap == 0,
            "demo_exit_on_original": r0}
    if ap == 0:
        r1 = subprocess.run(["/venv/bin/python", os.path.join(sd, "demo.py")], cwd=wt, env=env, stdout=subprocess.DEVNULL, stderr=subprocess.DEVNULL).returncode
        cmd = "/venv/bin/python -m pytest -q -p no:cacheprovider -q %s %s" % (TESTS[d[:3]], DESEL)
        t = subprocess.run(cmd, shell=True, cwd=wt, env=env, stdout=subprocess.PIPE, stderr=subprocess.STDOUT, text=True)
        conf.update({"demo_exit_with_change": r1, "tests_cmd": cmd, "tests_exit_with_change": t.returncode, "tests_summary": t.stdout.strip().splitlines()[-1][:160]})
    meta["confirmed"] = conf
    json.dump(meta, open(os.path.join(sd, "meta.json"), "w"), indent=1)
    subprocess.run(["git", "-C", "/repo", "worktree", "remove", "--force", wt], stdout=subprocess.DEVNULL, stderr=subprocess.DEVNULL)
    print(d, conf.get("demo_exit_on_original"), conf.get("demo_exit_with_change"), conf.get("tests_exit_with_change"), conf.get("tests_summary", "patch does not apply"), flush=True)
