#!/bin/sh
# tools/all_seeds_wt.sh [tier] : try every seeded change (seeded/C*/patch.diff) against its property's check in scratch worktrees, 4 in parallel.
# Every line must read exit 1 (caught). /repo is never touched.
tier=${1:-quick}
cd /verif
ls seeded | grep '^C[0-9][0-9]' | xargs -P 4 -I{} sh -c 'd={}; id=$(echo $d | cut -c1-3); tools/try_seed_wt.sh $id $d '$tier' > /tmp/tsw_$d.out 2>&1; echo "$d $(head -1 /tmp/tsw_$d.out)"' | sort | tee /tmp/all_seeds_wt.txt
! grep -v "exit 1" /tmp/all_seeds_wt.txt > /dev/null
