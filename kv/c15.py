"""C15 - one LLR polarity everywhere: positive means bit 0, negative means bit 1.

TV : the product (soft demodulators of C06) x (LLR consumers: thresholders in LLR mode, repetition soft-bit decoder, BP / min-sum / Wagner /
     SC / polar-BP / soft-RM decoders, llr_to_bits, sign_to_bin) is enumerated; for every pair and every bit sequence (exhaustive for short
     lengths, seeded above) the consumer is fed the producer's noise-free soft output (noise variances 1e-3, 1, 1e3) and must return the bits
     (decoders: the messages of the codewords the bits form) - Polarity events judged by Trace_Modem. LLR-to-probability conversions are
     driven on the ln 2 lattice and must equal 1 / (1 + 2^a) (Sigmoid events, exact rational arithmetic in TLC).
MC : LLRConvention is a two-line law (Bit(llr) = IF llr < 0 THEN 1 ELSE 0; P1 = 1/(1+2^a)); its content is in the enumeration of the product.
"""
import itertools
import math
import random

import torch
from .core import sint

from . import modem, tlc, tv

LEVEL = "model_checking"


def producers(tier):
    out = []
    for s in modem.catalogue(tier):
        if s.kind == "identity" or "via" in s.cfg:
            continue
        if s.component == "Pi4QPSK" and s.gray:
            continue      # labels of modulator and demodulator disagree (finding C05-pi4qpsk-gray): not a polarity question
        if s.component == "DPSK" and s.gray and s.b >= 2:
            continue      # same for Gray DPSK (finding C05-dpsk-gray-mapping)
        out.append(s)
    return out


def _sig(obj):
    import inspect
    try:
        return inspect.signature(obj.forward).parameters
    except (TypeError, ValueError):
        return {}


def soft_output(s, rows, nv):
    """Noise-free soft output of producer s for a batch of equally long bit rows -> (LLR tensor (N, L'), expected bits rows)."""
    b = s.b
    m, d = s.mod(), s.dem()
    for o in (m, d):
        if hasattr(o, "reset_state"):
            o.reset_state()
    X = torch.tensor(rows, dtype=torch.float32)
    if s.kind == "dpsk":
        ref = torch.zeros(len(rows), b)
        y = m(torch.cat([ref, X], dim=1))
        exp = rows
    else:
        y = m(X)
        exp = rows
    llr = d(y, nv)
    llr = llr.reshape(len(rows), -1)
    # the first rows again as un-batched 1-D symbol vectors: a row whose LLR signs differ from the batched call replaces it (and is then judged
    # by every consumer); a demodulator may reject the 1-D form
    for i in range(min(3, len(rows))):
        try:
            if hasattr(d, "reset_state"):
                d.reset_state()
            l1 = d(y[i], nv).reshape(-1)
        except Exception:
            continue
        if l1.shape == llr[i].shape and bool((torch.sign(l1) != torch.sign(llr[i])).any()):
            llr = llr.clone()
            llr[i] = l1
    if s.kind == "oqpsk":
        # quadrature stream is delayed by one symbol: compare from the second symbol on, with the delayed bits
        exp = [[(r[2 * i] if j == 0 else r[2 * (i - 1) + 1]) for i in range(1, len(r) // 2) for j in (0, 1)] for r in rows]
        llr = llr[:, 2:]
    return llr, exp


def thresholder_consumers():
    from kaira.models.binary import soft_bit_thresholding as T
    from kaira.models.fec.utils import llr_to_bits, sign_to_bin
    L = T.InputType.LLR
    cons = []
    cons.append(("FixedThresholder(LLR)", lambda x: T.FixedThresholder(threshold=0.0, input_type=L)(x), {}))
    cons.append(("AdaptiveThresholder(LLR,mean)", lambda x: T.AdaptiveThresholder(method="mean", input_type=L)(x), {"equal_mag": True}))
    cons.append(("LLRThresholder", lambda x: T.LLRThresholder()(x), {}))
    cons.append(("LLRThresholder(scaling=3)", lambda x: T.LLRThresholder(confidence_scaling=3.0)(x), {}))
    cons.append(("MinDistanceThresholder(LLR)", lambda x: T.MinDistanceThresholder(input_type=L)(x), {}))
    cons.append(("HysteresisThresholder(LLR)", lambda x: T.HysteresisThresholder(input_type=L)(x, reset_state=True), {"minmag": 0.5}))
    cons.append(("WeightedThresholder(LLR)", lambda x: T.WeightedThresholder(weights=1.0, input_type=L)(x), {}))
    cons.append(("DynamicThresholder(LLR)", lambda x: T.DynamicThresholder(input_type=L)(x, reset=True), {}))
    cons.append(("SoftBitEnsembleThresholder(LLR)", lambda x: T.SoftBitEnsembleThresholder([T.LLRThresholder(), T.WeightedThresholder(weights=1.0, input_type=L),
                                                                                              T.HysteresisThresholder(input_type=L)])(x), {"minmag": 0.5}))
    # the documented plain-string form of the mode argument, and objects created by name through the model registry (not for the fixed and
    # minimum-distance thresholders: their LLR mode is a recorded finding whatever the form)
    from kaira.models.registry import ModelRegistry as R
    cons.append(("AdaptiveThresholder(LLR,mean,str)", lambda x: T.AdaptiveThresholder(method="mean", input_type="llr")(x), {"equal_mag": True}))
    cons.append(("HysteresisThresholder(LLR,str)", lambda x: T.HysteresisThresholder(input_type="llr")(x, reset_state=True), {"minmag": 0.5}))
    cons.append(("WeightedThresholder(LLR,str)", lambda x: T.WeightedThresholder(weights=1.0, input_type="llr")(x), {}))
    cons.append(("DynamicThresholder(LLR,str)", lambda x: T.DynamicThresholder(input_type="llr")(x, reset=True), {}))
    cons.append(("AdaptiveThresholder(LLR,mean,registry)", lambda x: R.create("adaptive_thresholder", method="mean", input_type="llr")(x), {"equal_mag": True}))
    cons.append(("HysteresisThresholder(LLR,registry)", lambda x: R.create("hysteresis_thresholder", input_type="llr")(x, reset_state=True), {"minmag": 0.5}))
    cons.append(("DynamicThresholder(LLR,registry)", lambda x: R.create("dynamic_thresholder", input_type="llr")(x, reset=True), {}))
    cons.append(("WeightedThresholder(LLR,registry)", lambda x: R.create("weighted_thresholder", weights=1.0, input_type="llr")(x), {}))
    cons.append(("LLRThresholder(registry)", lambda x: R.create("llr_thresholder")(x), {}))
    cons.append(("llr_to_bits", lambda x: llr_to_bits(x), {}))
    cons.append(("sign_to_bin", lambda x: sign_to_bin(torch.sign(x)), {}))
    return cons


def decoder_consumers():
    from kaira.models.binary import soft_bit_thresholding as T
    from kaira.models.fec import decoders as D
    from kaira.models.fec import encoders as E
    H = torch.tensor([[1, 1, 0, 1, 0, 0], [0, 1, 1, 0, 1, 0], [1, 0, 1, 0, 0, 1]])
    cons = []

    def mk(name, enc, dec, comp):
        cons.append((name, enc, dec, comp))
    ldpc = E.LDPCCodeEncoder(check_matrix=H)
    mk("BeliefPropagationDecoder/LDPC(3x6)", ldpc, D.BeliefPropagationDecoder(ldpc, bp_iters=5), "BeliefPropagationDecoder")
    mk("MinSumLDPCDecoder/LDPC(3x6)", ldpc, D.MinSumLDPCDecoder(ldpc, bp_iters=5), "MinSumLDPCDecoder")
    mk("MinSumLDPCDecoder(normalized)/LDPC(3x6)", ldpc, D.MinSumLDPCDecoder(ldpc, bp_iters=5, normalized=True), "MinSumLDPCDecoder")
    mk("MinSumLDPCDecoder(offset=0.5,scaling=0.75)/LDPC(3x6)", ldpc, D.MinSumLDPCDecoder(ldpc, bp_iters=5, offset=0.5, scaling_factor=0.75), "MinSumLDPCDecoder")
    spc = E.SingleParityCheckCodeEncoder(3)
    mk("WagnerSoftDecisionDecoder/SPC(3)", spc, D.WagnerSoftDecisionDecoder(spc), "WagnerSoftDecisionDecoder")
    import contextlib
    import io
    with contextlib.redirect_stdout(io.StringIO()):
        pol = E.PolarCodeEncoder(4, 8)
        polz = E.PolarCodeEncoder(4, 8, frozen_zeros=True)
        pol16 = E.PolarCodeEncoder(8, 16)
    mk("SuccessiveCancellationDecoder/Polar(8,4)", pol, D.SuccessiveCancellationDecoder(pol), "SuccessiveCancellationDecoder")
    # four check-node levels: weak LLRs (large noise variance) become very small inside the decoder; the decision must still follow their sign
    mk("SuccessiveCancellationDecoder/Polar(16,8)", pol16, D.SuccessiveCancellationDecoder(pol16), "SuccessiveCancellationDecoder")
    mk("SuccessiveCancellationDecoder(min_sum)/Polar(16,8)", pol16, D.SuccessiveCancellationDecoder(pol16, regime="min_sum"), "SuccessiveCancellationDecoder")
    mk("BeliefPropagationPolarDecoder/Polar(8,4)", polz, D.BeliefPropagationPolarDecoder(polz), "BeliefPropagationPolarDecoder")
    rm = E.ReedMullerCodeEncoder(1, 3)
    mk("ReedMullerDecoder(soft)/RM(1,3)", rm, D.ReedMullerDecoder(rm, input_type="soft"), "ReedMullerDecoder")
    rep = E.RepetitionCodeEncoder(3)
    mk("RepetitionSoftBitDecoder(LLR)/Rep(3)", rep, T.RepetitionSoftBitDecoder(repetition_factor=3, input_type=T.InputType.LLR), "RepetitionSoftBitDecoder")
    return cons


def run(run):
    rng = random.Random(run.seed)
    quick = run.tier == "quick"
    run.rule = ("(producer, consumer, bit sequence, noise variance) over all soft demodulators x all LLR consumers; sequences exhaustive up to 2 symbols "
                "(<= 6 bits) else every bit group plus seeded; non-trivial = sequence contains a 1; distinct by (producer, consumer, sequence, nv)")
    prods = producers(run.tier)
    evs, meta = [], []
    tid = 0
    tcons = thresholder_consumers()
    nvs = [1e-3, 1.0, 1e3]
    for s in prods:
        b = s.b
        try:
            L = 2 * b if 2 * b <= 6 else b
            rows = [list(r) for r in itertools.product([0, 1], repeat=L)]
            if len(rows) > 64:
                rows = rng.sample(rows, 64)
            rows += [[rng.randrange(2) for _ in range(L)] for _ in range(8)]
            if s.kind == "oqpsk":
                rows = [r + r[:2] for r in rows]           # one more symbol: the first one is start-up loss
            for nv in nvs:
                llr, exp = soft_output(s, rows, nv)
                minmag = float(llr.abs().min())
                for (cname, f, opt) in tcons:
                    if opt.get("minmag") and minmag < opt["minmag"]:
                        continue
                    # a data-dependent threshold (batch mean of P1) separates the classes only when all LLRs have one magnitude
                    if opt.get("equal_mag") and float(llr.abs().max()) > 1.01 * minmag:
                        continue
                    raised = False
                    try:
                        out = f(llr.clone())
                        out = out.reshape(len(rows), -1)
                    except Exception as ex:
                        raised = True
                    for i, r in enumerate(exp):
                        if opt.get("mixed") and False:
                            continue
                        tid += 1
                        evs.append({"ev": "Polarity", "tid": tid, "expect": r, "out": modem.out_bits(out[i]) if not raised else [], "raised": raised})
                        meta.append((s, cname, nv))
                        run.case((s.name, cname, tuple(r), nv), nontrivial=any(r))
                    # one LLR at a time (shape (1,)): a consumer must decide a single soft value like the same value inside a sequence
                    if not opt.get("equal_mag") and not raised:
                        for i in range(min(3, len(exp))):
                            try:
                                o1 = [modem.out_bits(f(llr[i, j].reshape(1).clone()).reshape(-1))[0] for j in range(llr.shape[1])]
                                r1 = False
                            except Exception:
                                o1, r1 = [], True
                            if r1:
                                continue        # a consumer may reject a one-element input; a wrong decision counts
                            tid += 1
                            evs.append({"ev": "Polarity", "tid": tid, "expect": exp[i], "out": o1, "raised": False, "feed": "one LLR per call"})
                            meta.append((s, cname, nv))
                            run.case((s.name, cname, "single", tuple(exp[i]), nv), nontrivial=any(exp[i]))
        except Exception as ex:
            run.violate(s.component, "producer_raised", s.config(), {"scheme": s.name, "error": repr(ex)[:200]})
    # decoders as consumers (a representative set of producers: one per scheme family / bits-per-symbol)
    dprods = [s for s in prods if s.name in ("BPSK(complex_output=True)", "QPSK(normalize=True)", "PSK(8,gray=True)", "QAM(16,gray=True,normalize=True)",
                                              "QAM(64,gray=False,normalize=False)", "PAM(4,gray=False,normalize=True)", "PAM(8,gray=True,normalize=True)",
                                              "DPSK(4,gray=False)", "DBPSK", "OQPSK(normalize=True)", "Pi4QPSK(gray=False)")]
    if not quick:
        dprods = prods
    for (cname, enc, dec, comp) in decoder_consumers():
        k, n = int(enc.code_dimension), int(enc.code_length)
        msgs = [list(m) for m in itertools.product([0, 1], repeat=k)]
        for s in dprods:
            b = s.b
            try:
                M = torch.tensor(msgs, dtype=torch.float32)
                Cw = enc(M)
                cws = [[int(v) for v in row] for row in Cw.tolist()]
                # b codewords per transmitted row so that the row length is a multiple of the bits per symbol
                rows, expm = [], []
                for i in range(0, len(cws)):
                    grp = [cws[(i + j) % len(cws)] for j in range(b)]
                    rows.append([x for c in grp for x in c])
                    expm.append([x for j in range(b) for x in msgs[(i + j) % len(cws)]])
                if s.kind == "oqpsk":
                    continue_rows = True
                for nv in ([1.0, 1e3] if quick else nvs):
                    if s.kind == "oqpsk":
                        # offset QPSK delays the quadrature stream: its soft output is not a codeword image; undo the delay first
                        llr, _ = None, None
                        m_, d_ = s.mod(), s.dem()
                        m_.reset_state()
                        X = torch.tensor([r + [0, 0] for r in rows], dtype=torch.float32)
                        l = d_(m_(X), nv).reshape(len(rows), -1)
                        li, lq = l[:, 0::2], l[:, 1::2]
                        llr = torch.stack([li[:, :-1], lq[:, 1:]], dim=2).reshape(len(rows), -1)
                    else:
                        llr, _ = soft_output(s, rows, nv)
                    raised = False
                    try:
                        Lin = llr.reshape(len(rows) * b, n).clone()
                        out = dec(Lin)
                        # the documented optional result (return_errors=True): the message that comes with the error pattern is the same message
                        if True:
                            try:
                                o2 = dec(Lin.clone(), return_errors=True)
                                o2 = o2[0] if isinstance(o2, tuple) else o2
                                if torch.is_tensor(o2) and (o2.shape != out.shape or not torch.equal(o2.double(), out.double())):
                                    out = o2
                            except Exception:
                                pass
                        if isinstance(out, tuple):
                            out = out[0]
                        out = out.reshape(len(rows), -1)
                    except Exception as ex:
                        raised = True
                    for i in range(len(rows)):
                        tid += 1
                        evs.append({"ev": "Polarity", "tid": tid, "expect": expm[i], "out": modem.out_bits(out[i]) if not raised else [], "raised": raised})
                        meta.append((s, cname, nv))
                        run.case((s.name, cname, i, nv), nontrivial=any(expm[i]))
            except Exception as ex:
                run.violate(comp, "consumer_raised", {"consumer": cname, "producer": s.component}, {"producer": s.name, "error": repr(ex)[:200]})
    # LLR -> probability conversions on the ln 2 lattice
    from kaira.models.binary import soft_bit_thresholding as T
    sig = T.LLRThresholder(output_type=T.OutputType.SOFT)
    for a in range(-10, 11):
        tid += 1
        p = float(sig(torch.tensor([a * math.log(2.0)], dtype=torch.float64))[0])
        evs.append({"ev": "Sigmoid", "tid": tid, "a": a, "p6": sint(p * 1e6)})
        meta.append((None, "LLRThresholder(SOFT)", None))
        run.case(("sigmoid", a), nontrivial=a != 0)
    run.log("%d producers, %d events" % (len(prods), len(evs)))
    mism = tv.validate(run, "Trace_Modem", evs, name="TV C15", timeout=3000, heap="12g")
    seen = set()
    for (t, line, clause) in mism:
        e = evs[line - 1]
        s, cname, nv = meta[line - 1]
        comp = cname.split("(")[0].split("/")[0]
        key = (comp, cname, s.component if s else None)
        if key in seen:
            continue
        seen.add(key)
        run.violate(comp, clause, {"consumer": cname, "producer": s.component if s else None},
                    {"producer": s.name if s else None, "consumer": cname, "nv": nv, "expect": e.get("expect", [])[:24], "out": e.get("out", [])[:24], "raised": e.get("raised")},
                    "%s rejected by Trace_Modem clause %s" % (e["ev"], clause))
    run.sample(evs[5])
    run.sample({"producer": meta[len(evs) // 2][0].name if meta[len(evs) // 2][0] else None, "consumer": meta[len(evs) // 2][1], "event": evs[len(evs) // 2]})
    run.extra["producers"] = len(prods)
    run.extra["consumers"] = [c[0] for c in tcons] + [c[0] for c in decoder_consumers()]
    # binding demonstration on a window of 40 accepted events (Polarity events are self-contained: no header event is needed)
    badl = sorted({m[1] for m in mism})
    w0 = next((a for a in range(0, max(1, len(evs) - 40), 40)
               if not any(a < b <= a + 40 for b in badl) and any(e["ev"] == "Polarity" and len(e["out"]) > 1 for e in evs[a:a + 40])), None)
    if not run.only and w0 is not None:
        def corrupt(ev2):
            i = next(i for i, e in enumerate(ev2) if e["ev"] == "Polarity" and len(e["out"]) > 1)
            ev2[i]["out"] = [1 - ev2[i]["out"][0]] + ev2[i]["out"][1:]
            return i + 1
        ok, msg = tv.selftest_binding("Trace_Modem", evs[w0:w0 + 40], corrupt, "noise_free_llrs_reproduce_the_bits")
        if not ok:
            raise tlc.TLCFailure("binding self-test failed: " + msg)
        run.extra["binding_selftest"] = "flipping one consumer output bit is rejected at that line"
