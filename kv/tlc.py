"""Thin runner around TLC: model checking, behaviour generation and trace validation.

Everything TLC prints with PrintT is parsed back into Python values (tlaval), so verdicts such as
<<"MISMATCH", tid, line, clause>> are produced by the specification and only *read* here.
"""
import os
import re
import shutil
import subprocess
import tempfile
import time

SPEC_DIR = os.path.join(os.path.dirname(os.path.dirname(os.path.abspath(__file__))), "spec")
JAR = "/opt/veriftools/tla/tla2tools.jar"


class TLCFailure(Exception):
    """Machinery failure (exit 2): TLC error that is not a verdict of the specification."""


# ----------------------------------------------------------------------------------------------
# TLA+ value parser (enough for what PrintT prints: ints, strings, booleans, tuples, sets, records)
# ----------------------------------------------------------------------------------------------
def tlaval(s):
    v, i = _val(s, 0)
    i = _ws(s, i)
    if i != len(s):
        raise ValueError("trailing text in TLA value: %r" % s[i:i + 40])
    return v


def _ws(s, i):
    while i < len(s) and s[i] in " \t\r\n":
        i += 1
    return i


def _val(s, i):
    i = _ws(s, i)
    if s.startswith("<<", i):
        out = []
        i = _ws(s, i + 2)
        if s.startswith(">>", i):
            return out, i + 2
        while True:
            v, i = _val(s, i)
            out.append(v)
            i = _ws(s, i)
            if s.startswith(">>", i):
                return out, i + 2
            if s[i] != ",":
                raise ValueError("expected , in tuple at %d" % i)
            i += 1
    if s[i] == "{":
        out = []
        i = _ws(s, i + 1)
        if s[i] == "}":
            return out, i + 1
        while True:
            v, i = _val(s, i)
            out.append(v)
            i = _ws(s, i)
            if s[i] == "}":
                return out, i + 1
            if s[i] != ",":
                raise ValueError("expected , in set at %d" % i)
            i += 1
    if s[i] == "[":
        out = {}
        i = _ws(s, i + 1)
        if s[i] == "]":
            return out, i + 1
        while True:
            m = re.compile(r"\s*([A-Za-z_0-9]+)\s*\|->").match(s, i)
            if not m:
                raise ValueError("expected field at %d: %r" % (i, s[i:i + 30]))
            i = m.end()
            v, i = _val(s, i)
            out[m.group(1)] = v
            i = _ws(s, i)
            if s[i] == "]":
                return out, i + 1
            if s[i] != ",":
                raise ValueError("expected , in record at %d" % i)
            i += 1
    if s[i] == '"':
        j = i + 1
        buf = []
        while s[j] != '"':
            if s[j] == "\\":
                j += 1
            buf.append(s[j])
            j += 1
        return "".join(buf), j + 1
    m = re.compile(r"-?\d+").match(s, i)
    if m:
        return int(m.group(0)), m.end()
    m = re.compile(r"[A-Za-z_][A-Za-z_0-9]*").match(s, i)
    if m:
        w = m.group(0)
        return {"TRUE": True, "FALSE": False}.get(w, w), m.end()
    raise ValueError("cannot parse TLA value at %d: %r" % (i, s[i:i + 30]))


# ----------------------------------------------------------------------------------------------
class TLCResult:
    def __init__(self):
        self.ok = False            # "No error has been found" (mc) / simulation finished without error
        self.generated = 0
        self.distinct = 0
        self.depth = 0
        self.prints = []           # parsed PrintT values (lists / dicts / scalars)
        self.errors = []           # error lines
        self.violated = []         # names of violated invariants / properties
        self.postcondition_failed = False
        self.coverage = {}         # action name -> (distinct, total) when -coverage was requested
        self.wall = 0.0
        self.stdout = ""

    def tuples(self, tag):
        return [p for p in self.prints if isinstance(p, list) and p and p[0] == tag]


_STATES = re.compile(r"(\d+) states generated, (\d+) distinct states found")
_DEPTH = re.compile(r"The depth of the complete state graph search is (\d+)")
_INV = re.compile(r"Invariant (\S+) is violated")
_PROP = re.compile(r"(?:Action|Temporal) propert(?:y|ies) (\S+)? ?.*violated|property (\S+) is violated", re.I)
_COV = re.compile(r"^<(\w+) line \d+, col \d+ to line \d+, col \d+ of module (\w+)>: (\d+):(\d+)")


def run(module, cfg_text, env=None, workers=1, timeout=600, simulate=None, depth=None, seed=None,
        coverage=False, dfs=False, heap="8g", extra=None, spec_dir=None):
    """Run TLC on spec/<module>.tla with the given configuration text. Returns TLCResult.

    simulate: None or number of behaviours (uses -simulate num=N, with -depth).
    """
    spec_dir = spec_dir or SPEC_DIR
    work = tempfile.mkdtemp(prefix="kvtlc_")
    try:
        cfg = os.path.join(work, module + ".cfg")
        with open(cfg, "w") as f:
            f.write(cfg_text)
        # TLC unpacks its standard modules into java.io.tmpdir: keep that inside the work directory so that it is removed with it
        jopts = ["-XX:+UseParallelGC", "-Xmx" + heap, "-Xss64m", "-Djava.io.tmpdir=" + work]
        if dfs:
            jopts.append("-Dtlc2.tool.queue.IStateQueue=StateDeque")
        cmd = _tlc_cmd(jopts)
        cmd += ["-workers", str(workers), "-metadir", os.path.join(work, "meta"), "-noGenerateSpecTE",
                "-config", cfg]
        if simulate is not None:
            cmd += ["-simulate", "num=%d" % simulate]
        if depth is not None:
            cmd += ["-depth", str(depth)]
        if seed is not None:
            cmd += ["-seed", str(seed)]
        if coverage:
            cmd += ["-coverage", "1"]
        if extra:
            cmd += list(extra)
        cmd.append(os.path.join(spec_dir, module + ".tla"))
        e = dict(os.environ)
        e.pop("JAVA_TOOL_OPTIONS", None)
        if env:
            e.update({k: str(v) for k, v in env.items()})
        t0 = time.time()
        try:
            p = subprocess.run(cmd, cwd=spec_dir, env=e, stdout=subprocess.PIPE, stderr=subprocess.STDOUT,
                               timeout=timeout, text=True)
        except subprocess.TimeoutExpired:
            subprocess.run(["pkill", "-f", work], check=False)
            raise TLCFailure("TLC timed out after %ss on %s" % (timeout, module))
        r = parse(p.stdout)
        r.wall = time.time() - t0
        r.returncode = p.returncode
        return r
    finally:
        shutil.rmtree(work, ignore_errors=True)


_TLC_WRAPPER = None


def _tlc_cmd(jopts):
    """Reuse the classpath of the installed `tlc` wrapper so CommunityModules resolve."""
    global _TLC_WRAPPER
    if _TLC_WRAPPER is None:
        path = shutil.which("tlc")
        cp = None
        try:
            txt = open(path).read()
            m = re.search(r"-cp\s+(\S+)", txt)
            if m:
                cp = m.group(1).strip('"')
        except Exception:
            pass
        _TLC_WRAPPER = cp or JAR
    return ["java"] + jopts + ["-cp", _TLC_WRAPPER, "tlc2.TLC"]


def parse(out):
    r = TLCResult()
    r.stdout = out
    lines = out.splitlines()
    i = 0
    while i < len(lines):
        ln = lines[i]
        s = ln.strip()
        if s.startswith("<<") or s.startswith("[") and "|->" in s:
            # PrintT output may wrap over several lines for large values: join until brackets balance
            buf = s
            while _unbalanced(buf) and i + 1 < len(lines):
                i += 1
                buf += " " + lines[i].strip()
            try:
                r.prints.append(tlaval(buf))
            except Exception:
                pass
        m = _STATES.search(ln)
        if m:
            r.generated, r.distinct = int(m.group(1)), int(m.group(2))
        m = _DEPTH.search(ln)
        if m:
            r.depth = int(m.group(1))
        m = _INV.search(ln)
        if m:
            r.violated.append(m.group(1))
        if "is violated" in ln and not _INV.search(ln):
            r.violated.append(ln.strip())
        if ln.startswith("Error:") or "*** Errors" in ln or "Exception" in ln and "at " not in ln:
            r.errors.append(ln.strip())
            if "ostcondition" in ln or (i + 1 < len(lines) and "ostcondition" in lines[i + 1]):
                r.postcondition_failed = True
        if "ostcondition" in ln and ("violated" in ln or "false" in ln.lower()):
            r.postcondition_failed = True
        m = _COV.match(s)
        if m:
            r.coverage[m.group(1)] = (int(m.group(3)), int(m.group(4)))
        if "No error has been found" in ln:
            r.ok = True
        i += 1
    if r.errors or r.violated:
        r.ok = False
    return r


def _unbalanced(buf):
    return buf.count("<<") != buf.count(">>") or buf.count("[") != buf.count("]") or \
        buf.count("{") != buf.count("}")


def sany(module, spec_dir=None):
    spec_dir = spec_dir or SPEC_DIR
    p = subprocess.run(["tla-sany", module + ".tla"], cwd=spec_dir, stdout=subprocess.PIPE,
                       stderr=subprocess.STDOUT, text=True)
    return ("Semantic errors" not in p.stdout and "*** Errors" not in p.stdout
            and "Could not" not in p.stdout and "Fatal" not in p.stdout), p.stdout


def apalache(module, init, inv, length, timeout=300):
    """Apalache bounded check of spec/apalache/<module>.tla; returns (ok, seconds, tail of the output). ok is None when the tool is unavailable."""
    exe = shutil.which("apalache-mc")
    if not exe:
        return None, 0.0, "apalache-mc not installed"
    out = tempfile.mkdtemp(prefix="kvapa_")
    t0 = time.time()
    try:
        p = subprocess.run([exe, "check", "--init=" + init, "--inv=" + inv, "--length=%d" % length, "--out-dir=" + out, module + ".tla"],
                           cwd=os.path.join(SPEC_DIR, "apalache"), stdout=subprocess.PIPE, stderr=subprocess.STDOUT, text=True, timeout=timeout)
        txt = p.stdout
    except subprocess.TimeoutExpired:
        return None, time.time() - t0, "timeout"
    finally:
        shutil.rmtree(out, ignore_errors=True)
    return ("EXITCODE: OK" in txt), time.time() - t0, txt[-600:]
