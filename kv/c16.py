"""C16 - error-rate metrics are exact counts; the streaming form is partition-independent.

MC  : Metrics.tla, every history of update/compute/reset/forward up to length 6 over an adversarial pool
      (and a seeded pool), invariants = partition/order independence, sandwich, symmetry, reset.
GEN : TLC exports every history (with the counters after each step); each is replayed on real
      BitErrorRate / BlockErrorRate objects backed by real tensors.
TV  : long random histories over random tensors (real/complex, several shapes/dtypes, block_size None),
      one-shot forms, reductions, benchmark helpers and rejections, validated by Trace_Metrics.
"""
import json
import os
import random
import tempfile

import torch
from .core import sint

from . import tlc, tv

LEVEL = "model_checking"

POOL_X = [[0, 1, 1, 0], [1, 1], [0, 0, 0, 0, 0, 0], [1, 0, 1, 0]]
POOL_Y = [[0, 1, 1, 0], [0, 0], [0, 0, 0, 1, 0, 0], [1, 1, 1, 1]]


def cfg(pool, B, maxlen, export, fwd, invs=True):
    px, py = ("MCPoolX", "MCPoolY") if pool == "adv" else ("EnvPoolX", "EnvPoolY")
    s = "CONSTANTS PoolX <- %s\nPoolY <- %s\nB = %d\nMaxLen = %d\nExport = %s\nWithForward = %s\nSPECIFICATION Spec\nCHECK_DEADLOCK FALSE\n" % (
        px, py, B, maxlen, "TRUE" if export else "FALSE", "TRUE" if fwd else "FALSE")
    if invs:
        for i in ("EqualsOneShotOnConcatenation", "OrderIndependent", "Sandwich", "ZeroIffEqual", "Symmetric", "ResetRestoresInit"):
            s += "INVARIANT %s\n" % i
    if export:
        s += "INVARIANT ExportInv\n"
    return s


def tens(bits, rows, dtype=torch.float32):
    t = torch.tensor(bits, dtype=dtype)
    return t.reshape(rows, -1)


def counters(ber, bler):
    def g(o, n):
        v = getattr(o, n, None)
        return int(v) if v is not None else -1
    return g(ber, "total_bits"), g(ber, "error_bits"), g(bler, "total_blocks"), g(bler, "error_blocks")


def _make_metrics(via, B, ber_kw=None):
    """The two metric objects, built from the classes or by name through the metric registry. In the registry form a second pair with the
    same configuration is created as well and fed an all-different batch: objects of one configuration must not share their counters."""
    import kaira.metrics.signal  # noqa: F401  (registers the names)
    from kaira.metrics.registry import MetricRegistry
    from kaira.metrics.signal import BitErrorRate, BlockErrorRate
    ber_kw = ber_kw or {}
    if via == "class":
        return BitErrorRate(**ber_kw), BlockErrorRate(block_size=B)
    name = ("bler", "fer", "ser")[(B or 0) % 3]
    ber, bler = MetricRegistry.create("ber", **ber_kw), MetricRegistry.create(name, block_size=B)
    d1, d2 = MetricRegistry.create("ber", **ber_kw), MetricRegistry.create(name, block_size=B)
    n = 8 * (B or 1)
    d1.update(torch.zeros(2, n), torch.ones(2, n))
    d2.update(torch.zeros(2, n), torch.ones(2, n))
    return ber, bler


def replay(hist, px, py, B, rows_choice, via="class", swap=None):
    """swap: in the middle of the history the two objects are replaced by a deep copy / a pickle round trip / fresh objects loaded with their
    state_dict (a checkpoint of the running counters); the stream then continues on the replacements."""
    ber, bler = _make_metrics(via, B)
    for idx, (op, arg, tb, eb, tbl, ebl) in enumerate(hist):
        if swap is not None and idx == len(hist) // 2:
            from .core import module_forms
            f1 = dict(module_forms(ber, mk=lambda: _make_metrics("class", B)[0], kinds=(swap,)))
            f2 = dict(module_forms(bler, mk=lambda: _make_metrics("class", B)[1], kinds=(swap,)))
            if swap in f1 and swap in f2:
                ber, bler = f1[swap], f2[swap]
        if op == "update":
            L = len(px[arg - 1])
            rows = rows_choice(L)
            x, y = tens(px[arg - 1], rows), tens(py[arg - 1], rows)
            ber.update(x, y)
            bler.update(x, y)
        elif op == "reset":
            ber.reset()
            bler.reset()
        elif op == "compute":
            v1, v2 = float(ber.compute()), float(bler.compute())
            e1 = eb / max(tb, 1)
            e2 = ebl / max(tbl, 1)
            if abs(v1 - e1) > 1e-6:
                return idx, "ber_compute_equals_exact_fraction", e1, v1
            if abs(v2 - e2) > 1e-6:
                return idx, "bler_compute_equals_exact_fraction", e2, v2
        elif op == "forward":
            L = len(px[arg - 1])
            rows = rows_choice(L)
            x, y = tens(px[arg - 1], rows), tens(py[arg - 1], rows)
            ber(x, y)
            bler(x, y)
        c = counters(ber, bler)
        if c[0] >= 0 and (c[0], c[1]) != (tb, eb):
            return idx, "ber_counters_after_" + op, (tb, eb), c[:2]
        if c[2] >= 0 and (c[2], c[3]) != (tbl, ebl):
            return idx, "bler_counters_after_" + op, (tbl, ebl), c[2:]
    # the final value is always compared, whatever the last operation was
    tb, eb, tbl, ebl = hist[-1][2:]
    v1, v2 = float(ber.compute()), float(bler.compute())
    if abs(v1 - eb / max(tb, 1)) > 1e-6:
        return len(hist), "ber_compute_equals_exact_fraction", eb / max(tb, 1), v1
    if abs(v2 - ebl / max(tbl, 1)) > 1e-6:
        return len(hist), "bler_compute_equals_exact_fraction", ebl / max(tbl, 1), v2
    return None


def v5(t):
    v = float(t)
    if v != v:
        return -777777
    return sint(max(-3.0, min(3.0, v)) * 100000)      # clamped: anything outside [0, 1] is rejected by the spec without overflowing it


def rand_batch(rng, B, force=None):
    """A random pair of 0/1 tensors of shape (rows, m*B) (or 3-D), as (x, y, flat bit lists)."""
    rows = rng.choice([1, 2, 3, 4])
    m = rng.choice([1, 2, 3])
    L = rows * m * B
    kind = force or rng.choice(["equal", "alldiff", "single", "random", "sparse"])
    x = [rng.randrange(2) for _ in range(L)]
    if kind == "equal":
        y = list(x)
    elif kind == "alldiff":
        y = [1 - b for b in x]
    elif kind == "single":
        y = list(x)
        p = rng.randrange(L)
        y[p] = 1 - y[p]
    elif kind == "sparse":
        y = [b ^ (1 if rng.random() < 0.1 else 0) for b in x]
    else:
        y = [rng.randrange(2) for _ in range(L)]
    return x, y, rows, m


def tv_events(rng, tier):
    from kaira.benchmarks.metrics import StandardMetrics
    from kaira.metrics.signal import BitErrorRate, BlockErrorRate
    evs = []
    tid = 0
    nobj = 30 if tier == "quick" else 200
    for o in range(nobj):
        B = rng.choice([1, 2, 3, 4, 8])
        none_mode = (o % 5 == 4)
        cplx = (o % 4 == 3) and not none_mode
        dtype = rng.choice([torch.float32, torch.float64, torch.int64]) if not cplx else torch.complex64
        # the same bits in the {-1,+1} alphabet (float or integer dtypes): a decision threshold of 0 or 0.5 separates them just as well
        bipolar = (o % 4 == 1) and not cplx
        if bipolar:
            dtype = rng.choice([torch.float32, torch.int64, torch.int8])
        ber, bler = _make_metrics("registry" if o % 3 == 2 else "class", None if none_mode else B, {"threshold": rng.choice([0.0, 0.5])} if bipolar else None)
        tid += 1
        evs.append({"ev": "New", "tid": tid})
        hl = rng.choice([5, 20, 60, 200]) if tier == "thorough" else rng.choice([5, 20, 60])
        for s in range(hl):
            tid += 1
            op = rng.choices(["update", "compute", "reset", "forward"], weights=[6, 2, 1, 2])[0]
            if op in ("update", "forward"):
                x, y, rows, m = rand_batch(rng, B)
                if cplx:
                    xi = [rng.randrange(2) for _ in x]
                    yi = [b ^ (1 if rng.random() < 0.2 else 0) for b in xi]
                    X = torch.complex(torch.tensor(x, dtype=torch.float32), torch.tensor(xi, dtype=torch.float32)).reshape(rows, -1)
                    Y = torch.complex(torch.tensor(y, dtype=torch.float32), torch.tensor(yi, dtype=torch.float32)).reshape(rows, -1)
                else:
                    xi, yi = [], []
                    X, Y = tens(x, rows, dtype), tens(y, rows, dtype)
                    if bipolar:
                        X, Y = X * 2 - 1, Y * 2 - 1
                    r_ = rng.random()
                    if r_ < 0.2 and m > 1 and not none_mode:
                        X, Y = X.reshape(rows, m, B), Y.reshape(rows, m, B)       # 3-D layout, one block per trailing row
                    elif r_ < 0.5:          # (also for block_size=None: a block is then the whole batch item, whatever its trailing dimensions)
                        # any factorisation of the item into trailing dimensions: blocks are consecutive groups of the flattened item,
                        # whether or not the last dimension is a multiple of the block size
                        P = m * B
                        facs = [(a, P // a) for a in range(1, P + 1) if P % a == 0]
                        a, b = rng.choice(facs)
                        f2 = [(c, b // c) for c in range(1, b + 1) if b % c == 0]
                        c, d = rng.choice(f2)
                        shp = (rows, a, b) if rng.random() < 0.6 else (rows, a, c, d)
                        X, Y = X.reshape(shp), Y.reshape(shp)
                eB = (len(x) // rows) if none_mode else B
                e = {"tid": tid, "x": x, "y": y, "xi": xi, "yi": yi, "B": eB}
                if op == "update":
                    try:
                        ber.update(X, Y)
                        bler.update(X, Y)
                    except Exception as exc:
                        # a valid batch the metric refuses: a verdict (the Update event carries impossible counters and is rejected), not a harness failure
                        e.update({"ev": "Update", "c_tb": -1, "c_eb": -1, "c_tbl": -1, "c_ebl": -1, "form": "update raised %s" % repr(exc)[:160]})
                        evs.append(e)
                        break
                    c = counters(ber, bler)
                    e.update({"ev": "Update", "c_tb": c[0], "c_eb": c[1], "c_tbl": c[2], "c_ebl": c[3]})
                else:
                    try:
                        b1, b2 = ber(X, Y), bler(X, Y)
                        b1s, b2s = ber(Y, X), bler(Y, X)
                    except Exception as exc:
                        e.update({"ev": "Forward", "ber5": -1, "bler5": -1, "ber5s": -1, "bler5s": -1, "c_tb": -1, "c_eb": -1, "c_tbl": -1, "c_ebl": -1,
                                  "sum5": -1, "none": [-1], "form": "forward raised %s" % repr(exc)[:160]})
                        evs.append(e)
                        break
                    c = counters(ber, bler)
                    e.update({"ev": "Forward", "ber5": v5(b1), "bler5": v5(b2), "ber5s": v5(b1s), "bler5s": v5(b2s),
                              "c_tb": c[0], "c_eb": c[1], "c_tbl": c[2], "c_ebl": c[3], "sum5": -1, "none": [-1]})
                    if not none_mode and rng.random() < 0.5:
                        e["sum5"] = sint(min(float(BlockErrorRate(block_size=B, reduction="sum")(X, Y)), 20000.0) * 100000)      # a count, not a rate: no clamp to [0, 1]
                        e["none"] = [int(v) for v in BlockErrorRate(block_size=B, reduction="none")(X, Y).tolist()]
                evs.append(e)
            elif op == "compute":
                evs.append({"ev": "Compute", "tid": tid, "ber5": v5(ber.compute()), "bler5": v5(bler.compute()),
                            "B": 0 if none_mode else (2 * B if cplx else B)})
            else:
                ber.reset()
                bler.reset()
                c = counters(ber, bler)
                evs.append({"ev": "Reset", "tid": tid, "c_tb": c[0], "c_eb": c[1], "c_tbl": c[2], "c_ebl": c[3]})
        # an empty batch and a batch of zero-length items (the trailing slice of an evaluation loop): a metric may reject them, but a value it
        # returns is the rate of no errors among no bits / blocks - zero, not NaN - and the accumulators stay as they are
        if not none_mode and not cplx:
            for shp0 in ((0, 2 * B), (3, 0)):
                X0 = torch.zeros(shp0, dtype=dtype if dtype != torch.complex64 else torch.float32)
                try:
                    b1, b2 = ber(X0, X0.clone()), bler(X0, X0.clone())
                except Exception:
                    continue
                c = counters(ber, bler)
                evs.append({"ev": "Forward", "tid": tid, "x": [], "y": [], "xi": [], "yi": [], "B": B, "ber5": v5(b1), "bler5": v5(b2), "ber5s": v5(b1), "bler5s": v5(b2),
                            "c_tb": c[0], "c_eb": c[1], "c_tbl": c[2], "c_ebl": c[3], "sum5": -1, "none": [-1], "form": "empty input %s" % (shp0,)})
    # half-precision inputs with many differing bits in one call (a count kept in the inputs' dtype loses integers above 256 / 2048), and the same
    # data split over several updates
    from kaira.metrics.signal import BitErrorRate as _BER
    for dt in (torch.bfloat16, torch.float16):
        for nbits, nerr in ((3000, 3000), (4096, 2731), (1000, 301)):
            xs = [0] * nbits
            ys = [1 if i < nerr else 0 for i in range(nbits)]
            rng.shuffle(ys)
            X0, Y0 = torch.tensor(xs, dtype=dt).reshape(1, -1), torch.tensor(ys, dtype=dt).reshape(1, -1)
            tid += 1
            evs.append({"ev": "New", "tid": tid})
            try:
                m = _BER()
                v1 = m(X0, Y0)
                m.update(X0[:, :nbits // 2], Y0[:, :nbits // 2])
                m.update(X0[:, nbits // 2:], Y0[:, nbits // 2:])
                v2 = m.compute()
            except Exception:
                continue
            evs.append({"ev": "Helper", "tid": tid, "x": xs, "y": ys, "xi": [], "yi": [], "B": 1, "ber5": v5(v1), "bler5": v5(v1), "form": "one-shot " + str(dt).replace("torch.", "")})
            evs.append({"ev": "Helper", "tid": tid, "x": xs, "y": ys, "xi": [], "yi": [], "B": 1, "ber5": v5(v2), "bler5": v5(v2), "form": "two updates " + str(dt).replace("torch.", "")})
    # benchmark helpers on 1-D data whose length is a multiple of the block size
    for _ in range(60 if tier == "quick" else 400):
        B = rng.choice([1, 2, 4, 5])
        x, y, rows, m = rand_batch(rng, B)
        tid += 1
        xt, yt = torch.tensor(x), torch.tensor(y)
        evs.append({"ev": "Helper", "tid": tid, "x": x, "y": y, "xi": [], "yi": [], "B": B,
                    "ber5": v5(StandardMetrics.bit_error_rate(xt, yt)), "bler5": v5(StandardMetrics.block_error_rate(xt, yt, B))})
    # rejection of non-divisor block sizes (an error, never a value)
    for per_item in range(1, 13):
        for B in range(1, 8):
            x = torch.zeros(2, per_item)
            raised = False
            try:
                BlockErrorRate(block_size=B)(x, x)
            except Exception:
                raised = True
            tid += 1
            evs.append({"ev": "Reject", "tid": tid, "per_item": per_item, "B": B, "raised": raised})
    return evs


def run(run):
    rng = random.Random(run.seed)
    quick = run.tier == "quick"
    run.rule = ("histories of update/compute/reset(/forward) enumerated by TLC over a pool of 4 batches and replayed on real metric "
                "objects; random long histories recorded from real objects and validated by TLC. Non-trivial = history contains at "
                "least one update; distinct by (pool, history) resp. (object, step)")
    # --- (A) model checking -------------------------------------------------------------------
    r = tlc.run("MC_Metrics", cfg("adv", 2, 6, False, True), workers=16, timeout=900)
    if not r.ok:
        raise tlc.TLCFailure("MC_Metrics: %s %s\n%s" % (r.errors, r.violated, r.stdout[-1500:]))
    run.add_tlc("MC_Metrics adversarial pool B=2 len<=6 (update x4, compute, reset, forward x4)", r)
    # unbounded histories: inductive invariant discharged by Apalache (Init => IndInv, IndInv /\ Next => IndInv', IndInv => Sandwich)
    obligations = [("Init", "IndInv", 0), ("IndInit", "IndInv", 1), ("IndInit", "Sandwich", 0)]
    proved = []
    for (ini, inv, ln) in obligations:
        ok, secs, tail = tlc.apalache("MetricsInd", ini, inv, ln)
        if ok is False:
            raise tlc.TLCFailure("Apalache obligation %s => %s failed:\n%s" % (ini, inv, tail))
        proved.append({"init": ini, "inv": inv, "length": ln, "result": "OK" if ok else "skipped: " + tail, "wall_s": round(secs, 1)})
    run.extra["apalache_inductive_invariant"] = proved
    # seeded pool
    B2 = rng.choice([1, 2, 3, 4])
    px, py = [], []
    for kind in ("equal", "single", "random", "sparse"):
        x, y, _, _ = rand_batch(rng, B2, force=kind)
        px.append(x)
        py.append(y)
    fd, pf = tempfile.mkstemp(suffix=".json", prefix="kvpool_")
    os.write(fd, json.dumps({"x": px, "y": py}).encode())
    os.close(fd)
    try:
        r = tlc.run("MC_MetricsPool", cfg("env", B2, 5 if quick else 6, False, True), env={"POOL_FILE": pf}, workers=16, timeout=900)
        if not r.ok:
            raise tlc.TLCFailure("MC_MetricsPool: %s %s\n%s" % (r.errors, r.violated, r.stdout[-1500:]))
        run.add_tlc("MC_MetricsPool seeded pool B=%d" % B2, r)
        # --- (B) export + replay ---------------------------------------------------------------
        gens = [("adv", POOL_X, POOL_Y, 2, "MC_Metrics", 5 if quick else 6, False, {}),
                ("env", px, py, B2, "MC_MetricsPool", 3 if quick else 4, True, {"POOL_FILE": pf})]
        for (pool, X, Y, B, mod, ml, fwd, env) in gens:
            r = tlc.run(mod, cfg(pool, B, ml, True, fwd, invs=False), env=env, workers=1, timeout=1800, heap="12g")
            if not r.ok:
                raise tlc.TLCFailure("export %s: %s\n%s" % (mod, r.errors, r.stdout[-1500:]))
            run.add_tlc("GEN %s len=%d" % (mod, ml), r, kind="gen")
            hists = [h[1] for h in r.tuples("HIST")]
            nops = len(X) + 2 + (len(X) if fwd else 0)
            if len(hists) != nops ** ml:
                raise tlc.TLCFailure("export incomplete: %d histories, expected %d" % (len(hists), nops ** ml))
            run.log("%d histories exported (%s, length %d)" % (len(hists), pool, ml))
            bad = False
            for i, h in enumerate(hists):
                def rows_choice(L, i=i, B=B):
                    c = [rws for rws in (1, 2, 3) if L % (rws * B) == 0]
                    return c[i % len(c)]
                d = replay(h, X, Y, B, rows_choice, via=("registry" if i % 5 == 4 else "class"), swap=(None, "state_dict", None, "deepcopy", None, "pickle", None)[i % 7])
                run.traces += 1
                run.case((pool, tuple((o[0], o[1]) for o in h)), nontrivial=any(o[0] == "update" for o in h))
                if d and not bad:
                    bad = True
                    comp = "BitErrorRate" if d[1].startswith("ber") else "BlockErrorRate"
                    run.violate(comp, d[1], {"form": "streaming"}, {"pool_x": X, "pool_y": Y, "B": B, "history": h, "step": d[0],
                                                                  "expected": d[2], "observed": d[3]},
                                "replay of a TLC-generated history disagrees with Metrics.tla at step %d" % d[0])
            run.sample({"pool": pool, "B": B, "history": hists[len(hists) // 3]})
    finally:
        os.unlink(pf)
    # --- (C) traces from the implementation validated by TLC --------------------------------------
    evs = tv_events(rng, run.tier)
    for e in evs:
        run.case(("tv", e["tid"]), nontrivial=e["ev"] in ("Update", "Forward", "Helper", "Compute"))
    mism = tv.validate(run, "Trace_Metrics", evs, name="TV random histories", timeout=1800)
    run.sample({"event": next(e for e in evs if e["ev"] == "Update")})
    seen = set()
    for (t, line, clause) in mism:
        e = evs[line - 1]
        comp = "StandardMetrics" if clause.startswith("helper") else ("BitErrorRate" if clause.startswith("ber") else "BlockErrorRate")
        if clause in ("symmetric_in_arguments", "zero_iff_inputs_agree"):
            comp = "BitErrorRate/BlockErrorRate"
        if (comp, clause) in seen:
            continue
        seen.add((comp, clause))
        lo = max(0, line - 6)
        run.violate(comp, clause, {"form": "trace"}, {"event": e, "preceding_events": [x["ev"] for x in evs[lo:line - 1]]},
                    "trace event %d rejected by Trace_Metrics" % line)
    if not mism:
        def corrupt(ev2):
            i = next(i for i, e in enumerate(ev2) if e["ev"] == "Update" and e["c_tb"] >= 0)
            ev2[i]["c_eb"] += 1
            return i + 1
        ok, msg = tv.selftest_binding("Trace_Metrics", evs[:120], corrupt, "ber_counters_after_update")
        if not ok:
            raise tlc.TLCFailure("binding self-test failed: " + msg)
        run.extra["binding_selftest"] = "adding 1 to one logged error counter is rejected at that line"
    # --- (D) the repository's OWN tests as a trace source: every BER / BLER call they make is recorded (pytest plugin, nothing in the repo is
    #         edited) and the whole history is validated by Trace_MetricsRepo - the tests exercise the code, the specification supplies the assertions
    if not run.only:
        repo_test_traces(run)
    run.assumptions += ["inputs are exact 0/1 tensors so thresholding is unambiguous", "blocks are contiguous segments of each batch item"]
    run.exhaustive = True


def repo_test_traces(run):
    import json
    import os
    import subprocess
    import tempfile
    from . import core
    fd, out = tempfile.mkstemp(prefix="kvrepotrace_", suffix=".ndjson")
    os.close(fd)
    try:
        env = dict(os.environ, KV_TRACE_OUT=out, PYTHONPATH=core.ROOT + os.pathsep + core.REPO)
        cmd = ["/venv/bin/python", "-m", "pytest", "-q", "-p", "no:cacheprovider", "-p", "kv.repotrace_plugin", "tests/metrics/test_signal_metrics.py", "tests/metrics/signal", "-q"]
        pr = subprocess.run(cmd, cwd=core.REPO, env=env, stdout=subprocess.PIPE, stderr=subprocess.STDOUT, text=True, timeout=1200)
        evs = [json.loads(ln) for ln in open(out)] if os.path.getsize(out) else []
    finally:
        try:
            os.unlink(out)
        except OSError:
            pass
    if len(evs) < 50:
        raise tlc.TLCFailure("repository tests produced only %d metric events (pytest: %s)" % (len(evs), pr.stdout.strip().splitlines()[-1:] if pr.stdout else "?"))
    nobj = sum(1 for e in evs if e["ev"] == "New")
    for e in evs:
        run.case(("repo-tests", e["tid"]), nontrivial=e["ev"] in ("Update", "Forward", "Compute"))
    mism = tv.validate(run, "Trace_MetricsRepo", evs, name="TV repository tests (BER / BLER calls)", timeout=900)
    run.extra["repository_test_trace"] = {"events": len(evs), "metric_objects": nobj, "untracked_calls": sum(1 for e in evs if e.get("tracked") is False),
                                          "pytest": (pr.stdout.strip().splitlines() or ["?"])[-1][:120]}
    seen = set()
    for (t, line, clause) in mism:
        e = evs[line - 1]
        kind = next((x["cls"] for x in evs[:line] if x["ev"] == "New" and x["oid"] == e["oid"]), "BlockErrorRate")
        if (kind, clause) in seen:
            continue
        seen.add((kind, clause))
        lo = max(0, line - 6)
        run.violate(kind, clause, {"form": "repository_tests"}, {"event": {k: (v if k != "mask" else str(v)[:200]) for k, v in e.items()},
                                                                 "preceding_events_of_the_run": [x["ev"] for x in evs[lo:line - 1]]},
                    "call recorded from the repository's own tests rejected by Trace_MetricsRepo")
    if not mism:
        def corrupt(ev2):
            i = next(i for i, e in enumerate(ev2) if e["ev"] == "Update" and e["tracked"] and e["c_err"] >= 0)
            ev2[i]["c_err"] += 1
            return i + 1
        ok, msg = tv.selftest_binding("Trace_MetricsRepo", evs, corrupt, "accumulated_error_count_is_exact")
        if not ok:
            raise tlc.TLCFailure("binding self-test (repository trace) failed: " + msg)
