"""C06 - demodulators decide for the nearest point and emit correctly signed, scaled max-log LLRs.

TV : per scheme: received points on a grid over 1.5 x the bounding box, on both sides of every nearest-neighbour boundary and at random
     (integers in units of 1/S, so squared distances are exact in TLC), hard decisions and soft outputs for noise variances over six decades
     (scalar and per-symbol). Trace_Modem decides: the hard label belongs to a nearest point; the LLR of each bit is positive / negative when
     the nearest 0- / 1-labelled point is nearer (beyond a rounding guard); LLR x noise variance = kappa x (d1^2 - d0^2) with one kappa > 0 per
     scheme, inferred by the specification from the first informative event and then held fixed.
MC : the nearest-point and max-log definitions are those of Modem.tla; C14's model checking covers the label algebra they use.
"""
import math
import random

import torch
from .core import sint

from . import modem, tlc, tv

LEVEL = "model_checking"
C = 131072


def received_points(s, hdr, rng, quick):
    pts = hdr["pts"]
    S = hdr["S"]
    xs = [p[0] for p in pts]
    ys = [p[1] for p in pts]
    one_d = max(abs(v) for v in ys) == 0
    out = []
    lim = 12000
    bx0, bx1 = int(1.5 * min(xs)), int(1.5 * max(xs))
    by0, by1 = (int(1.5 * min(ys)), int(1.5 * max(ys))) if not one_d else (0, 0)
    if s.kind == "dpsk":
        n = 48 if quick else 360
        for i in range(n):
            a = 2 * math.pi * (i + 0.37) / n
            out.append((sint(S * math.cos(a)), sint(S * math.sin(a))))      # on the unit circle: the decision variable is normalised
        return out
    g = 14 if quick else 40
    if one_d:
        for i in range(g * 8):
            out.append((bx0 + (bx1 - bx0) * i // (g * 8 - 1), 0))
    else:
        for i in range(g):
            for j in range(g):
                out.append((bx0 + (bx1 - bx0) * i // (g - 1), by0 + (by1 - by0) * j // (g - 1)))
    # both sides of the boundary between nearest neighbours
    dm = min((p[0] - q[0]) ** 2 + (p[1] - q[1]) ** 2 for i, p in enumerate(pts) for q in pts[i + 1:])
    pairs = [(p, q) for i, p in enumerate(pts) for q in pts[i + 1:] if (p[0] - q[0]) ** 2 + (p[1] - q[1]) ** 2 <= dm * 1.01]
    if len(pairs) > (40 if quick else 400):
        pairs = rng.sample(pairs, 40 if quick else 400)
    for p, q in pairs:
        for f in (0.40, 0.60):
            out.append((sint(p[0] + f * (q[0] - p[0])), sint(p[1] + f * (q[1] - p[1]))))
    for _ in range(60 if quick else 600):
        out.append((rng.randint(bx0, bx1), rng.randint(by0, by1) if not one_d else rng.choice([0, 0, rng.randint(-3000, 3000)])))
    out = [(max(-lim, min(lim, x)), max(-lim, min(lim, y))) for x, y in out]
    if s.kind == "oqpsk":
        out = [(x, y) for x, y in out if abs(x) > 30 and abs(y) > 30]
    return out


def run(run):
    rng = random.Random(run.seed)
    quick = run.tier == "quick"
    run.rule = ("per scheme: grid / boundary / random received points x (hard, soft at several noise variances, scalar and per-symbol); "
                "non-trivial = point not coinciding with a constellation point; distinct by (scheme, point, noise variance, bit)")
    cat = [s for s in modem.catalogue(run.tier) if s.kind != "identity"]
    if run.only:
        cat = [s for s in cat if s.config() == run.only.get("config")]
    nvs = [1e-3, 1.0, 100.0] if quick else [1e-3, 1e-2, 0.1, 1.0, 10.0, 100.0]
    evs, owner = [], []
    tid = 0
    for s in cat:
        try:
            tid += 1
            hdr = modem.scheme_event(s, tid)
            if hdr is None:
                continue
            evs.append(hdr)
            owner.append(s)
            S, b = hdr["S"], s.b
            ypts = received_points(s, hdr, rng, quick)
            slow = s.component == "PSK"
            big = len(hdr["pts"]) >= 64
            if quick and big:
                ypts = rng.sample(ypts, min(len(ypts), 160))        # large constellations: every TLC evaluation scans all points
            soft_pts = ypts if not (slow or (quick and big)) else rng.sample(ypts, min(len(ypts), (40 if big else 60) if quick else 400))
            soft_pts = soft_pts[:len(soft_pts) - len(soft_pts) % 5] if len(soft_pts) >= 10 else soft_pts
            d = s.dem()

            def feed(points):
                y = torch.tensor([complex(x / S, yy / S) for x, yy in points], dtype=torch.complex64)
                if s.kind == "dpsk":
                    return torch.stack([torch.ones_like(y), y], dim=1)
                return y.reshape(-1, 1)
            if hasattr(d, "reset_state"):
                d.reset_state()
            hard = d(feed(ypts)).reshape(len(ypts), -1)
            for (x, yy), row in zip(ypts, hard):
                tid += 1
                bits = modem.out_bits(row)
                lab = -1 if (-1 in bits or len(bits) != b) else int("".join(map(str, bits)), 2)
                evs.append({"ev": "Hard", "tid": tid, "y": [x, yy], "out": lab})
                owner.append(s)
                run.case((s.name, "hard", x, yy), nontrivial=True)
            # the same points as rows of several symbols and with two leading batch dimensions: every decision that differs from the
            # one-symbol-per-row pass is handed to the specification as well (equal ones are already judged above)
            if s.kind == "memoryless":
                for shp in ((-1, 4), (2, -1, 3), "strided"):
                    if shp == "strided":             # the same points as a non-contiguous strided view of a larger buffer
                        from .core import noncontiguous
                        npts = len(ypts)
                        try:
                            h2 = d(noncontiguous(feed(ypts))).reshape(npts, -1)
                        except Exception:
                            continue
                        for (x, yy), r1, r2 in zip(ypts, hard, h2):
                            run.case((s.name, "hard", "strided", x, yy), nontrivial=True)
                            if r1.shape != r2.shape or not torch.equal(r1, r2):
                                tid += 1
                                bits = modem.out_bits(r2)
                                lab = -1 if (-1 in bits or len(bits) != b) else int("".join(map(str, bits)), 2)
                                evs.append({"ev": "Hard", "tid": tid, "y": [x, yy], "out": lab, "layout": "strided view"})
                                owner.append(s)
                        continue
                    cnt = abs(shp[0] * shp[1] * (shp[2] if len(shp) > 2 else 1))
                    npts = len(ypts) - len(ypts) % (cnt * 2)
                    if npts < cnt * 2:
                        continue
                    try:
                        h2 = d(feed(ypts[:npts]).reshape(shp)).reshape(npts, -1)
                    except Exception:
                        continue            # a demodulator may reject the rank; a different answer counts
                    for (x, yy), r1, r2 in zip(ypts[:npts], hard[:npts], h2):
                        run.case((s.name, "hard", str(shp), x, yy), nontrivial=True)
                        if r1.shape != r2.shape or not torch.equal(r1, r2):
                            tid += 1
                            bits = modem.out_bits(r2)
                            lab = -1 if (-1 in bits or len(bits) != b) else int("".join(map(str, bits)), 2)
                            evs.append({"ev": "Hard", "tid": tid, "y": [x, yy], "out": lab, "layout": str(shp)})
                            owner.append(s)
            for nv in nvs + ["per_symbol"]:
                Y = feed(soft_pts)
                if nv == "per_symbol":
                    nvt = torch.tensor([10.0 ** rng.uniform(-3, 2) for _ in soft_pts], dtype=torch.float32).reshape(-1, 1)
                    if s.kind == "dpsk":
                        continue        # the differential demodulator takes one variance per received pair; covered by the scalar sweep
                    arg = nvt
                    if s.kind == "memoryless" and len(soft_pts) % 5 == 0:
                        # several symbols per row, each with its own variance: symbol k of a row must be scaled by variance k of that row
                        Y = Y.reshape(-1, 5)
                        arg = nvt.reshape(-1, 5)
                else:
                    nvt = torch.full((len(soft_pts), 1), float(nv))
                    arg = float(nv)
                    # integer-valued variances in the forms a caller may write them: a Python int, an integer tensor, a float64 tensor
                    if float(nv) == 1.0:
                        arg = 1
                    elif float(nv) == 100.0:
                        arg = torch.tensor(100) if s.b % 2 == 0 else torch.tensor(100.0, dtype=torch.float64)
                if hasattr(d, "reset_state"):
                    d.reset_state()
                try:
                    if isinstance(nv, float) and nv >= 1.0:
                        Y = Y.clone().requires_grad_(True)        # received symbols that are tracked by autograd (the output of a trainable stage)
                    llr = d(Y, arg).detach().reshape(len(soft_pts), -1).double()
                except Exception as ex:
                    tid += 1
                    evs.append({"ev": "Hard", "tid": tid, "y": [0, 0], "out": -2, "error": repr(ex)[:120], "nv": str(nv)})
                    owner.append(s)
                    continue
                if llr.shape[1] != b:
                    tid += 1
                    evs.append({"ev": "Hard", "tid": tid, "y": [0, 0], "out": -3, "error": "soft output shape %s" % (tuple(llr.shape),), "nv": str(nv)})
                    owner.append(s)
                    continue
                q = llr * nvt.double() * (S * S / C)
                for i, (x, yy) in enumerate(soft_pts):
                    for k in range(b):
                        tid += 1
                        v = float(q[i, k])
                        v = max(-4.0e4, min(4.0e4, v)) if math.isfinite(v) else 0.0
                        evs.append({"ev": "Soft", "tid": tid, "y": [x, yy], "k": k + 1, "q": sint(v), "sg": (1 if float(llr[i, k]) > 0 else (-1 if float(llr[i, k]) < 0 else 0)),
                                    "C": C, "nv": str(nv)})
                        owner.append(s)
                        run.case((s.name, "soft", x, yy, str(nv), k), nontrivial=True)
        except Exception as ex:
            run.violate(s.component, "demodulator_raised", s.config(), {"scheme": s.name, "error": repr(ex)[:200]})
    run.log("%d schemes, %d events" % (len(cat), len(evs)))
    mism = tv.validate_sharded(run, "Trace_Modem", evs, (lambda e: e["ev"] == "Scheme"), name="TV C06", max_events=(40000 if quick else 30000), jobs=10)
    # vacuity: the scale clause is only exercised for schemes whose kappa the specification could infer
    kappas = {}
    for k in [p for p in getattr(run, "last_prints", []) if isinstance(p, list) and p and p[0] == "KAPPA"]:
        sname = next((owner[i].name for i, e in enumerate(evs) if e["tid"] == k[1]), None)
        kappas[sname] = round(k[2] / k[3], 3)
    run.extra["kappa_inferred"] = kappas
    missing = [s.name for s in cat if s.name not in kappas and s.points() is not None]
    if len(kappas) < len(cat) // 2:
        raise tlc.TLCFailure("vacuity: kappa inferred for only %d of %d schemes" % (len(kappas), len(cat)))
    run.extra["kappa_not_inferred"] = missing
    seen = set()
    for (t, line, clause) in mism:
        e = evs[line - 1]
        s = owner[line - 1]
        if e["ev"] not in ("Hard", "Soft"):
            continue
        if (s.name, clause) in seen:
            continue
        seen.add((s.name, clause))
        run.violate(s.component, clause, s.config(), {"scheme": s.name, "event": e, "S": next(h for h in evs if h["ev"] == "Scheme" and h["name"] == s.name)["S"]},
                    "%s rejected by Trace_Modem clause %s" % (e["ev"], clause))
    run.sample(next(e for e in evs if e["ev"] == "Hard"))
    run.sample(next(e for e in evs if e["ev"] == "Soft"))
    if not mism and not run.only:
        def corrupt(ev2):
            i = next(i for i, e in enumerate(ev2) if e["ev"] == "Soft" and abs(e["q"]) > 2000)
            ev2[i]["q"] = -ev2[i]["q"]
            ev2[i]["sg"] = -ev2[i]["sg"]
            return i + 1
        j = next(i for i, e in enumerate(evs) if e["ev"] == "Scheme" and e["b"] == 2)
        sub = [evs[j]] + [e for e in evs[j + 1:j + 4000] if e["ev"] == "Soft"][:400]
        ok, msg = tv.selftest_binding("Trace_Modem", sub, corrupt)
        if not ok:
            raise tlc.TLCFailure("binding self-test failed: " + msg)
        run.extra["binding_selftest"] = "negating one logged LLR is rejected at that line"
    run.assumptions += ["points are integers in units of 1/S (S ~ 8000 / max coordinate); ties and near-ties within the rounding guard (slack) are accepted either way",
                        "kappa is inferred per scheme by the specification, any positive constant is accepted"]
