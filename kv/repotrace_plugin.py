"""pytest plugin (loaded with -p kv.repotrace_plugin, nothing in /repo is edited): records every BitErrorRate / BlockErrorRate call that the
repository's OWN tests make - constructor, update, compute, reset, forward - as ndjson events for Trace_MetricsRepo.tla.

Each event carries the per-element difference mask computed here from the call's arguments by the metric's definition (not by calling the
implementation): BER - (x > threshold) != (y > threshold), real and imaginary parts as separate bits; BLER - |x - y| > threshold, row by row,
to be cut into blocks of B by the specification. After the call the object's public counters are logged. Objects whose inputs are too large
to log are marked untracked.
"""
import json
import os

EVENTS = []
OIDS = {}
MAXEL = 4096


def _oid(obj):
    # id() values are reused after garbage collection: the identity is stored on the object itself
    o = getattr(obj, "_kv_oid", None)
    if o is None:
        OIDS["n"] = OIDS.get("n", 0) + 1
        o = OIDS["n"]
        try:
            object.__setattr__(obj, "_kv_oid", o)
        except Exception:
            pass
    return o


def _rows(t):
    import torch
    if t.dim() == 0:
        t = t.reshape(1, 1)
    elif t.dim() == 1:
        t = t.reshape(-1, 1)          # the first dimension is the batch: a 1-D tensor is a batch of one-element items
    return t.reshape(t.shape[0], -1)


def _mask(kind, obj, x, y):
    """The recording must never change a test's outcome: any problem here just makes the call untracked."""
    try:
        return _mask0(kind, obj, x, y)
    except Exception:
        return None


def _mask0(kind, obj, x, y):
    import torch
    if x.shape != y.shape or x.numel() == 0:
        return None
    thr = float(getattr(obj, "threshold", 0.5 if kind == "ber" else 0.0))
    if kind == "ber":
        if x.is_complex() or y.is_complex():
            xr, yr = torch.view_as_real(x.to(torch.complex64)), torch.view_as_real(y.to(torch.complex64))
            m = ((xr > thr) != (yr > thr))
            m = m.reshape(1, -1)
        else:
            m = ((x > thr) != (y > thr)).reshape(1, -1)
    else:
        if x.is_complex() or y.is_complex():
            return None
        m = (torch.abs(_rows(x).double() - _rows(y).double()) > thr)
    if m.numel() > MAXEL:
        return None
    return [[int(v) for v in row] for row in m.tolist()]


def _counters(kind, obj):
    names = ("total_bits", "error_bits") if kind == "ber" else ("total_blocks", "error_blocks")
    out = []
    for n in names:
        v = getattr(obj, n, None)
        try:
            out.append(int(v))
        except Exception:
            out.append(-1)
    return out


def _val5(v):
    try:
        import torch
        f = float(torch.as_tensor(v).double().reshape(-1)[0])
        if f != f or f in (float("inf"), float("-inf")):
            return 99999998
        return int(round(max(-3.0, min(3.0, f)) * 100000))
    except Exception:
        return 99999998


def _wrap(cls, kind):
    o_init, o_update, o_compute, o_reset, o_forward = cls.__init__, cls.update, cls.compute, cls.reset, cls.forward

    def init(self, *a, **k):
        o_init(self, *a, **k)
        bs = getattr(self, "block_size", None)
        EVENTS.append({"ev": "New", "oid": _oid(self), "kind": kind, "B": int(bs) if bs else 0, "reduction": str(getattr(self, "reduction", "mean")), "cls": type(self).__name__})

    def update(self, x, y, *a, **k):
        r = o_update(self, x, y, *a, **k)
        m = _mask(kind, self, x, y)
        c = _counters(kind, self)
        EVENTS.append({"ev": "Update", "oid": _oid(self), "mask": m if m is not None else [], "tracked": m is not None, "c_total": c[0], "c_err": c[1]})
        return r

    def compute(self, *a, **k):
        r = o_compute(self, *a, **k)
        EVENTS.append({"ev": "Compute", "oid": _oid(self), "v5": _val5(r)})
        return r

    def reset(self, *a, **k):
        r = o_reset(self, *a, **k)
        c = _counters(kind, self)
        EVENTS.append({"ev": "Reset", "oid": _oid(self), "c_total": c[0], "c_err": c[1]})
        return r

    def forward(self, x, y, *a, **k):
        r = o_forward(self, x, y, *a, **k)
        m = _mask(kind, self, x, y)
        red = str(getattr(self, "reduction", "mean"))
        EVENTS.append({"ev": "Forward", "oid": _oid(self), "mask": m if m is not None else [], "tracked": m is not None and (kind == "ber" or red == "mean"), "v5": _val5(r)})
        return r
    cls.__init__, cls.update, cls.compute, cls.reset, cls.forward = init, update, compute, reset, forward


def pytest_configure(config):
    from kaira.metrics.signal import ber, bler
    _wrap(ber.BitErrorRate, "ber")
    _wrap(bler.BlockErrorRate, "bler")


def pytest_unconfigure(config):
    out = os.environ.get("KV_TRACE_OUT")
    if out:
        with open(out, "w") as f:
            for i, e in enumerate(EVENTS, start=1):
                e["tid"] = i
                f.write(json.dumps(e, separators=(",", ":")) + "\n")
