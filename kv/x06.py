"""X06 (extended coverage, not a listed property) - CompositeMetric / CompositeLoss follow Composite.tla.

MC : MC_Composite, both flavours: the weight table sums to one after every construction / add, lists only members, a rejected add changes
     nothing, the loss flavour keeps the asked-for weight exactly, the metric flavour keeps the old members' proportions, the combined value
     is a convex combination of the contributing members' values; the wrong design "norescale" (old weights kept when a member is added)
     must be rejected (vacuity guard).
GEN: every exported history is replayed on a real CompositeMetric / CompositeLoss whose members are stub metrics / losses returning the
     value the history assigns them: after every step the real weight table is compared with the specification's exact rationals (1e-9) and
     the member list with the specification's, every Eval with the exact combined value (1e-5), and a duplicate add must raise ValueError.
"""
from fractions import Fraction

import torch

from . import tlc

LEVEL = "model_checking"

CFG = '''CONSTANTS Names = {"a", "b", "c"}
InitWeights = {1, 3}
AddWeights <- %s
Values <- %s
Flavour = "%s"
MaxLen = %d
Export = %s
Design = "%s"
SPECIFICATION Spec
CHECK_DEADLOCK FALSE
INVARIANT WeightsSumToOne
INVARIANT TableKeysAreMembers
INVARIANT NoDuplicateMembers
INVARIANT Convex
INVARIANT RejectedAddChangesNothing
INVARIANT LossWeightPreserved
INVARIANT ProportionsKept
INVARIANT ExportInv
'''
ADDS = {"metric": "MetricAdds", "loss": "LossAdds"}


def _stubs(flavour, cur):
    from kaira.losses.base import BaseLoss
    from kaira.metrics.base import BaseMetric

    if flavour == "metric":
        class Stub(BaseMetric):
            def __init__(self, key):
                super().__init__(name="stub_" + key)
                self.key = key

            def forward(self, x, y, *a, **k):
                return torch.tensor(float(cur[self.key]))
    else:
        class Stub(BaseLoss):
            def __init__(self, key):
                super().__init__()
                self.key = key

            def forward(self, x, y):
                return torch.tensor(float(cur[self.key]))
    return Stub


def _table(obj, flavour):
    return dict(obj.weights), list((obj.metrics if flavour == "metric" else obj.losses).keys())


def _cmp_table(step, obj, flavour, spec_table, spec_members):
    w, ms = _table(obj, flavour)
    if ms != spec_members:
        return (step, "members_kept_in_order_of_addition", spec_members, ms)
    exp = {t[0]: Fraction(t[1], t[2]) for t in spec_table}
    if set(w) != set(exp):
        return (step, "weight_table_lists_the_expected_members", sorted(exp), sorted(w))
    for k, q in exp.items():
        try:
            v = float(w[k])
        except Exception:
            return (step, "weights_are_numbers", str(q), repr(w[k]))
        if not abs(v - float(q)) <= 1e-9:
            return (step, "weights_after_the_step_equal_the_specification", {k: str(q)}, {k: v})
    return None


def replay(flavour, h):
    from kaira.losses import CompositeLoss
    from kaira.metrics import CompositeMetric
    cur = {}
    Stub = _stubs(flavour, cur)
    x = torch.zeros(2, 3)
    obj = None
    members = []
    for step, e in enumerate(h, start=1):
        op, names, warg, raised, table, val = e
        if op == "construct":
            comps = {n: Stub(n) for n in names}
            ws = None if warg == [] else {p[0]: float(p[1]) for p in warg}
            obj = CompositeMetric(comps, ws) if flavour == "metric" else CompositeLoss(comps, ws)
            members = list(names)
        elif op == "add":
            n = names[0]
            before = _table(obj, flavour)
            try:
                if flavour == "metric":
                    obj.add_metric(n, Stub(n), None if warg == [] else warg[0] / warg[1])
                else:
                    obj.add_loss(n, Stub(n), warg[0] / warg[1])
                did_raise = False
            except ValueError:
                did_raise = True
            if did_raise != raised:
                return (step, "duplicate_name_raises_and_only_a_duplicate", raised, did_raise)
            if raised:
                if _table(obj, flavour) != before:
                    return (step, "rejected_add_changes_nothing", str(before), str(_table(obj, flavour)))
            else:
                members.append(n)
        else:
            cur.clear()
            cur.update({m: v for m, v in zip(members, names)})
            y = obj(x, x)
            exp = Fraction(val[0], val[1])
            try:
                got = float(y)
            except Exception:
                return (step, "combined_value_is_a_scalar", str(exp), repr(y))
            if not abs(got - float(exp)) <= 1e-5:
                return (step, "combined_value_is_the_weighted_sum_of_the_members", str(exp), got)
            ind = obj.compute_individual(x, x)
            if list(ind.keys()) != members or any(float(ind[m]) != float(cur[m]) for m in members):
                return (step, "individual_values_are_the_members_own", {m: cur[m] for m in members}, {k: float(v) for k, v in ind.items()})
        d = _cmp_table(step, obj, flavour, table, members)
        if d:
            return d
    return None


def run(run):
    quick = run.tier == "quick"
    ml = 3 if quick else 4
    run.rule = "every history of length %d over construct / add / eval with three names, both flavours; distinct by (flavour, history)" % ml
    g = tlc.run("MC_Composite", CFG % (ADDS["metric"], "ValSet", "metric", 3, "FALSE", "norescale"), workers=4, timeout=600)
    if g.ok or "WeightsSumToOne" not in " ".join(g.violated):
        raise tlc.TLCFailure("vacuity guard: design 'norescale' not rejected (%s)" % (g.violated,))
    run.extra["vacuity_guard"] = "design 'norescale' (old weights kept when a weighted member is added) violates WeightsSumToOne"
    for flavour in ("metric", "loss"):
        r = tlc.run("MC_Composite", CFG % (ADDS[flavour], "ValSet" if quick else "ValSet2", flavour, ml, "TRUE", "code"), workers=1, timeout=3000, heap="12g")
        if not r.ok:
            raise tlc.TLCFailure("MC_Composite %s: %s %s" % (flavour, r.errors, r.violated))
        run.add_tlc("MC_Composite %s MaxLen=%d" % (flavour, ml), r)
        hs = [h[1] for h in r.tuples("CHIST")]
        if not hs:
            raise tlc.TLCFailure("no histories exported")
        bad = False
        for h in hs:
            d = replay(flavour, h)
            run.traces += 1
            run.case((flavour, str(h)), nontrivial=True)
            if d and not bad:
                bad = True
                run.violate("CompositeMetric" if flavour == "metric" else "CompositeLoss", d[1], {"flavour": flavour},
                            {"history": h, "step": d[0], "expected": d[2], "observed": d[3]}, "history replay disagrees with Composite.tla")
        run.sample({"flavour": flavour, "history": hs[len(hs) // 2]})
        run.log("%s: %d histories replayed" % (flavour, len(hs)))
    # binding demonstration: histories of the wrong design must be rejected by the real objects
    r = tlc.run("MC_Composite", CFG.replace("INVARIANT WeightsSumToOne\n", "").replace("INVARIANT Convex\n", "").replace("INVARIANT ProportionsKept\n", "").replace("INVARIANT LossWeightPreserved\n", "")
                % (ADDS["metric"], "ValSet", "metric", 3, "TRUE", "norescale"), workers=1, timeout=600)
    hs = [h[1] for h in r.tuples("CHIST")]
    nbad = sum(1 for h in hs if replay("metric", h))
    if nbad == 0:
        raise tlc.TLCFailure("binding self-test failed: histories of the 'norescale' design were accepted")
    run.extra["binding_selftest"] = "%d of %d histories of the 'norescale' design are rejected by the replay" % (nbad, len(hs))
    run.assumptions += ["members are stubs returning the value the history assigns (the member metrics / losses themselves are outside this check)",
                        "weights compared as exact rationals within 1e-9, combined values within 1e-5"]
    run.exhaustive = True
