"""C17 - pipeline models run their stages in declared order, independent of thread timing.

MC   : ParallelPool (all interleavings of Start/Finish/Collect on W workers), Pipelines list model.
GEN  : TLC exports every schedule class (finish order, collect order) and every add/remove/run
       history; each is replayed on the real models (two binders for the thread pool).
TV   : the outcomes of those replays and of direct runs of Sequential / DeepJSCC / ChannelCode /
       Branching / Feedback / MultipleAccess / WynerZiv models are validated by Trace_Pipelines.
"""
import concurrent.futures
import itertools
import random
import threading

import torch

from . import tlc, tv

LEVEL = "model_checking"
COMPONENT_PAR = "ParallelModel"


# ------------------------------------------------------------------------------------------ util
class Stage:
    """Recording stage: appends its id to the value and logs (id, token of the extra arguments)."""

    def __init__(self, sid, log):
        self.sid = sid
        self.log = log

    delay = 0.0

    def __call__(self, v, *a, **k):
        if self.delay:
            import time
            time.sleep(self.delay)
        self.log.append([self.sid, _tok(a, k)])
        return tuple(v) + (self.sid,)


def _tok(a, k):
    if not a and not k:
        return 0
    if tuple(a) == (7,) and k == {"k": 7}:
        return 7
    return -1


def _extra(e):
    return ((), {}) if e == 0 else ((7,), {"k": 7})


def pool_cfg(n, w, handover="declared", export=False, liveness=True):
    return """CONSTANTS N = %d
W = %d
HandOver = "%s"
Export = %s
SPECIFICATION Spec
CHECK_DEADLOCK FALSE
INVARIANT TypeOK
INVARIANT AggregatorSeesDeclaredOrder
INVARIANT MappingPairsOwnResult
INVARIANT NoLostBranch
%s
""" % (n, w, handover, "TRUE" if export else "FALSE", "INVARIANT ExportInv" if export else ("PROPERTY Terminates" if liveness else ""))


# ------------------------------------------------------------------------------ parallel replay
def run_parallel_collect(n, w, collect, aggregator=True):
    """Binder (ii): force the order in which the main thread collects the futures."""
    import kaira.models.generic.parallel as P
    from kaira.models.generic import ParallelModel

    def sub(fs, timeout=None):
        fs = list(fs)
        concurrent.futures.wait(fs)
        for b in collect:
            if b - 1 < len(fs):
                yield fs[b - 1]

    steps = [("b%d" % i, (lambda x, i=i: ("r", i))) for i in range(1, n + 1)]
    model = ParallelModel(max_workers=w, steps=list(steps), aggregator=(lambda rs: tuple(rs)) if aggregator else None)
    orig = getattr(P, "as_completed", None)
    orig_cf = concurrent.futures.as_completed
    try:
        if orig is not None:
            P.as_completed = sub
        concurrent.futures.as_completed = sub
        out = model("x")
    finally:
        if orig is not None:
            P.as_completed = orig
        concurrent.futures.as_completed = orig_cf
    return out


def run_parallel_gated(n, w, finish, aggregator=True, no_grad=False):
    """Binder (i): real thread-pool timing, branches finish in the order TLC chose. no_grad: the model is called under torch.no_grad()."""
    from kaira.models.generic import ParallelModel
    started = [threading.Event() for _ in range(n + 1)]
    gate = [threading.Event() for _ in range(n + 1)]
    done = [threading.Event() for _ in range(n + 1)]

    def mk(i):
        def f(x):
            started[i].set()
            if not gate[i].wait(20):
                raise RuntimeError("gate timeout")
            done[i].set()
            return ("r", i)
        return f

    steps = [("b%d" % i, mk(i)) for i in range(1, n + 1)]
    model = ParallelModel(max_workers=w, steps=steps, aggregator=(lambda rs: tuple(rs)) if aggregator else None)
    box = {}

    def main():
        try:
            if no_grad:
                with torch.no_grad():
                    box["out"] = model("x")
            else:
                box["out"] = model("x")
        except BaseException as e:  # noqa
            box["exc"] = e

    t = threading.Thread(target=main)
    t.start()
    try:
        for b in finish:
            if not started[b].wait(20):
                if no_grad:
                    break           # a branch that never starts under no_grad is reported through the outcome (the run is released below)
                raise tlc.TLCFailure("gated replay: branch %d never started (n=%d w=%s finish=%s)" % (b, n, w, finish))
            gate[b].set()
            done[b].wait(20)
            # let the future complete and the collector wake up before the next branch is released
            threading.Event().wait(0.002)
    finally:
        for g in gate:
            g.set()
        t.join(30)
    if "exc" in box:
        raise box["exc"]
    return box["out"]


def par_event(tid, n, out, aggregator):
    if aggregator:
        agg = [r[1] if isinstance(r, tuple) and len(r) == 2 and r[0] == "r" else -1 for r in (out if isinstance(out, (tuple, list)) else [out])]
        return {"ev": "ParRun", "tid": tid, "N": n, "agg": agg, "pairs": [[i, i] for i in range(1, n + 1)]}
    pairs = []
    if isinstance(out, dict):
        for name, r in out.items():
            nid = int(name[1:]) if isinstance(name, str) and name[1:].isdigit() else -1
            rid = r[1] if isinstance(r, tuple) and len(r) == 2 else -1
            pairs.append([nid, rid])
    pairs.sort()
    return {"ev": "ParRun", "tid": tid, "N": n, "agg": list(range(1, n + 1)), "pairs": pairs}


# ------------------------------------------------------------------------------ list-model replay
def replay_history(kind, hist, shared=False):
    """Step a real model through one TLC-generated history; return list of (index, what, expected, got).

    shared: a stage id stands for one stage OBJECT (adding id 1 twice adds the same object twice) instead of a fresh object per add."""
    from kaira.models.base import ConfigurableModel
    from kaira.models.generic import ParallelModel, SequentialModel
    log = []
    if kind == "Configurable":
        m = ConfigurableModel()
    elif kind == "Sequential":
        m = SequentialModel()
    else:
        m = ParallelModel()
    names = []
    ctr = [0]
    diffs = []
    pool_ = {}
    namemap = {}
    for idx, h in enumerate(hist):
        op = h["op"]
        if op == "add":
            st = pool_.setdefault(h["s"], Stage(h["s"], log)) if shared else Stage(h["s"], log)
            if kind == "Parallel":
                ctr[0] += 1
                m.add_step(st, "n%d" % ctr[0])
                namemap["n%d" % ctr[0]] = h["s"]
            else:
                m.add_step(st)
            raised = False
        elif op == "remove":
            try:
                m.remove_step(h["i"] - 1)
                raised = False
            except IndexError:
                raised = True
            if raised != h["raised"]:
                diffs.append((idx, "remove_raised", h["raised"], raised))
        else:
            del log[:]
            a, k = _extra(h["extra"])
            out = m((), *a, **k)
            if kind == "Parallel":
                got_out = sorted(v[0] for v in out.values()) if isinstance(out, dict) else None
                exp_out = sorted(h["out"])
                got_calls = sorted(log)
                exp_calls = sorted([list(c) for c in h["calls"]])
                okpairs = all(isinstance(v, tuple) and len(v) == 1 for v in out.values())
                if not okpairs or len(out) != len(h["out"]):
                    diffs.append((idx, "parallel_mapping", h["out"], repr(out)))
                elif any(namemap.get(nm) != v[0] for nm, v in out.items()):
                    diffs.append((idx, "parallel_name_to_result", {nm: namemap.get(nm) for nm in out}, repr(out)))
                cfgs = list(getattr(m, "step_configs", []))
                if not shared and len(cfgs) >= 2 and not diffs:
                    # the same history state once more with an order-sensitive aggregator, the later-declared steps finishing first
                    for p_, c in enumerate(cfgs):
                        c[1].delay = 0.004 * (len(cfgs) - 1 - p_)
                    m.aggregator = list
                    try:
                        agg = m((), *a, **k)
                    finally:
                        m.aggregator = None
                        for c in cfgs:
                            c[1].delay = 0.0
                    want = [(c[1].sid,) for c in cfgs]
                    if list(agg) != want:
                        diffs.append((idx, "aggregator_order_after_history", want, repr(agg)))
            else:
                got_out = list(out)
                exp_out = list(h["out"])
                got_calls = [list(c) for c in log]
                exp_calls = [list(c) for c in h["calls"]]
            if got_out != exp_out:
                diffs.append((idx, "run_output", exp_out, got_out))
            if got_calls != exp_calls:
                diffs.append((idx, "run_calls", exp_calls, got_calls))
        if op in ("add", "remove"):
            cur = getattr(m, "step_configs", None) if kind == "Parallel" else getattr(m, "steps", None)
            if cur is not None:
                ids = [(c[1].sid if isinstance(c, tuple) else c.sid) for c in cur]
                if ids != list(h["steps"]):
                    diffs.append((idx, "steps_after_" + op, list(h["steps"]), ids))
    return diffs


def replay_branching(hist):
    """Step a real BranchingModel through one TLC-generated history; return the first difference or None."""
    from kaira.models.generic import BranchingModel
    m = BranchingModel()
    ran = []
    for idx, (op, n, c, raised, sel, x) in enumerate(hist):
        got_raised, got_sel = False, ""
        try:
            if op == "add":
                m.add_branch(n, condition=(lambda x, c=tuple(c), t=idx % 2: torch.tensor(x in c) if t else (x in c)), model=(lambda x, n=n: ran.append(n) or n))
            elif op == "remove":
                m.remove_branch(n)
            elif op == "default":
                m.set_default_branch(lambda x: ran.append("default") or "default")
            else:
                del ran[:]
                out = m(x, return_branch=True)
                got_sel = out[1] if isinstance(out, tuple) else "?"
                if ran != [got_sel] or out[0] != got_sel:
                    return idx, "ran_exactly_the_selected_branch", [sel], list(ran)
        except (ValueError, KeyError, RuntimeError):
            got_raised = True
            if op == "run":
                got_sel = "error"
        if got_raised != raised:
            return idx, "raises_as_the_model", raised, got_raised
        if op == "run" and got_sel != sel:
            return idx, "first_true_branch_in_insertion_order", sel, got_sel
    return None


# ------------------------------------------------------------------------------ direct model runs
def seq_events(rng, tier):
    from kaira.models.channel_code import ChannelCodeModel
    from kaira.models.deepjscc import DeepJSCCModel
    from kaira.models.generic import SequentialModel
    evs = []
    tid = 0
    lens = range(0, 7)
    for n in lens:
        combos = list(itertools.product([1, 2, 3], repeat=n)) if n <= (4 if tier == "quick" else 6) else \
            [tuple(rng.choice([1, 2, 3]) for _ in range(n)) for _ in range(30)]
        if tier == "quick" and len(combos) > 40:
            combos = rng.sample(combos, 40)
        for ids in combos:
            for extra in (0, 7):
                log = []
                m = SequentialModel([Stage(s, log) for s in ids])
                a, k = _extra(extra)
                out = m((), *a, **k)
                tid += 1
                evs.append({"ev": "SeqRun", "tid": tid, "kind": "Sequential", "steps": list(ids), "extra": extra,
                            "calls": [list(c) for c in log], "out": list(out)})
    # the same with TENSOR data and tensor-valued extras (a pipeline may treat tensors specially - move them to a device, cast them): the value
    # records the order (each stage maps v to 10 v + id), every stage must still receive the positional and the keyword extra
    import torch

    class TStage:
        def __init__(self, sid, log):
            self.sid, self.log = sid, log

        def __call__(self, v, *a, **k):
            ok = len(a) == 1 and float(a[0]) == 7.0 and set(k) == {"k"} and float(k["k"]) == 7.0
            self.log.append([self.sid, 7 if ok else (0 if (not a and not k) else -1)])
            return v * 10 + self.sid
    for n in (1, 2, 3, 4):
        for ids in (list(itertools.product([1, 2, 3], repeat=n)) if n <= 2 else [tuple(rng.choice([1, 2, 3]) for _ in range(n)) for _ in range(6)]):
            for form in ("tensor", "float"):
                log = []
                m = SequentialModel([TStage(s, log) for s in ids])
                ex = (torch.tensor(7.0), {"k": torch.tensor(7.0)}) if form == "tensor" else (7.0, {"k": 7.0})
                out = m(torch.zeros(1), ex[0], **ex[1])
                digits = [int(ch) for ch in str(int(float(out.reshape(-1)[0])))] if float(out.reshape(-1)[0]) > 0 else []
                tid += 1
                evs.append({"ev": "SeqRun", "tid": tid, "kind": "Sequential", "steps": list(ids), "extra": 7, "calls": [list(c) for c in log], "out": digits,
                            "data": "tensor", "extras": form})
    for perm in itertools.permutations([1, 2, 3, 4]):
        for extra in (0, 7):
            log = []
            m = DeepJSCCModel(*[Stage(s, log) for s in perm])
            a, k = _extra(extra)
            out = m((), *a, **k)
            tid += 1
            evs.append({"ev": "SeqRun", "tid": tid, "kind": "DeepJSCC", "steps": list(perm), "extra": extra,
                        "calls": [list(c) for c in log], "out": list(out)})
    perms6 = list(itertools.permutations([1, 2, 3, 4, 5, 6]))
    for perm in (perms6 if tier == "thorough" else rng.sample(perms6, 60)):
        for extra in (0, 7):
            log = []
            enc, con, mod, ch, dem, dec = [Stage(s, log) for s in perm]
            m = ChannelCodeModel(encoder=enc, constraint=con, modulator=mod, channel=ch, demodulator=dem, decoder=dec)
            a, k = _extra(extra)
            out = m((), *a, **k)
            tid += 1
            # documented order: encoder -> modulator -> constraint -> channel -> demodulator -> decoder
            declared = [perm[0], perm[2], perm[1], perm[3], perm[4], perm[5]]
            evs.append({"ev": "SeqRun", "tid": tid, "kind": "ChannelCode", "steps": declared, "extra": extra,
                        "calls": [list(c) for c in log], "out": list(out)})
    return evs


def branch_events(rng, tier):
    from kaira.models.generic import BranchingModel
    evs = []
    tid = 100000
    for n in range(0, 5 if tier == "thorough" else 4):
        for conds in itertools.product([False, True], repeat=n):
            for hasdef in (False, True):
                for tensor_cond in (False, True):
                    ran = []
                    m = BranchingModel()
                    for i, c in enumerate(conds, start=1):
                        cv = (lambda x, c=c: torch.tensor(c)) if tensor_cond else (lambda x, c=c: c)
                        m.add_branch("br%d" % i, condition=cv, model=(lambda x, i=i, *a, **k: ran.append(i) or ("out", i)))
                    if hasdef:
                        m.set_default_branch(lambda x, *a, **k: ran.append(n + 1) or ("out", n + 1))
                    raised = False
                    try:
                        out = m("x", return_branch=True)
                    except RuntimeError:
                        raised = True
                    tid += 1
                    evs.append({"ev": "BranchRun", "tid": tid, "conds": list(conds), "hasdef": hasdef, "ran": list(ran),
                                "raised": raised})
    # histories with removal: remove a branch then run - removed branch must not run, order of the rest kept
    for n in (3, 4):
        for conds in itertools.product([False, True], repeat=n):
            for rm in range(n):
                ran = []
                m = BranchingModel()
                for i, c in enumerate(conds, start=1):
                    m.add_branch("br%d" % i, condition=(lambda x, c=c: c), model=(lambda x, i=i: ran.append(i) or i))
                m.remove_branch("br%d" % (rm + 1))
                m.set_default_branch(lambda x: ran.append(n) or n)   # default has index n (= len(remaining)+1)
                rest = [c for j, c in enumerate(conds) if j != rm]
                idmap = [j + 1 for j in range(n) if j != rm]
                m("x")
                fpos = next((j + 1 for j, c in enumerate(rest) if c), 0)
                got = []
                for r in ran:
                    if fpos and r == idmap[fpos - 1]:
                        got.append(fpos)
                    elif not fpos and r == n:
                        got.append(len(rest) + 1)
                    else:
                        got.append(-r)
                tid += 1
                evs.append({"ev": "BranchRun", "tid": tid, "conds": rest, "hasdef": True, "ran": got, "raised": False})
    return evs


def feedback_events(rng, tier):
    from kaira.models.feedback_channel import FeedbackChannelModel
    evs = []
    tid = 200000
    for T in range(0, 6 if tier == "quick" else 9):
        calls = []

        def mk(name):
            def f(*a, **k):
                calls.append(name)
                return a[0] if a else None
            return f
        m = FeedbackChannelModel(encoder=mk("enc"), forward_channel=mk("fwd"), decoder=mk("dec"), feedback_generator=mk("gen"),
                                 feedback_channel=mk("fbch"), feedback_processor=mk("proc"), max_iterations=T)
        out = m(torch.zeros(2))
        tid += 1
        evs.append({"ev": "FbRun", "tid": tid, "T": T, "calls": list(calls), "iterations": len(out["iterations"])})
    return evs


def mac_events(rng, tier):
    from kaira.channels import BaseChannel
    from kaira.constraints import BaseConstraint
    from kaira.models.base import BaseModel
    from kaira.models.multiple_access_channel import MultipleAccessChannelModel
    evs = []
    tid = 300000

    KEPT = []

    class Enc(BaseModel):
        def __init__(self, i, calls, enc_out):
            super().__init__()
            self.i, self.calls, self.enc_out = i, calls, enc_out
            self.kept = KEPT

        def forward(self, x, *a, **k):
            self.calls.append(["enc", self.i])
            y = x if getattr(self, "identity", False) else x * (self.i + 1) + self.i      # an identity encoder hands the message itself on (uncoded transmission)
            self.enc_out.append([int(v) for v in y.flatten().tolist()])
            self.kept.append(y)
            return y

    class Dec(BaseModel):
        def __init__(self, i, calls):
            super().__init__()
            self.i, self.calls = i, calls

        def forward(self, x, *a, **k):
            self.calls.append(["dec", self.i])
            return x

    class Con(BaseConstraint):
        def __init__(self, calls, box):
            super().__init__()
            self.calls, self.box = calls, box

        def forward(self, x, *a, **k):
            self.calls.append(["constraint", 0])
            self.box.append([int(v) for v in x.flatten().tolist()])
            return x

    class Ch(BaseChannel):
        def __init__(self, calls):
            super().__init__()
            self.calls = calls

        def forward(self, x, *a, **k):
            self.calls.append(["channel", 0])
            return x

    for U in range(1, 6 if tier == "thorough" else 5):
        for joint in (True, False):
            patterns = [list(range(1, U + 1))]                      # one encoder per user
            if U >= 2:
                patterns.append([1] * U)                            # one encoder instance shared by every user
            if U >= 3:
                # every partially shared list: all assignments of up to 3 encoder instances to the users (normalised to first-use order)
                seenp = set()
                for pat in itertools.product(range(1, 4), repeat=U):
                    ren, norm = {}, []
                    for v in pat:
                        ren.setdefault(v, len(ren) + 1)
                        norm.append(ren[v])
                    if tuple(norm) not in seenp and 1 < len(ren) < U:
                        seenp.add(tuple(norm))
                        patterns.append(norm)
            for pat in patterns:
                calls, enc_out, box = [], [], []
                del KEPT[:]
                pool = {i: Enc(i, calls, enc_out) for i in set(pat)}
                if (len(evs) + U) % 2 == 0:
                    for e_ in pool.values():
                        e_.identity = True
                encs = [pool[i] for i in pat]
                decs = [Dec(1, calls)] if joint else [Dec(i, calls) for i in range(1, U + 1)]
                if U == 1 and not joint:
                    continue
                try:
                    m = MultipleAccessChannelModel(encoders=encs, decoders=decs, channel=Ch(calls), power_constraint=Con(calls, box), num_devices=U)
                    xs = [torch.tensor([[float(rng.randrange(-5, 6)) for _ in range(3)] for _ in range(2)]) for _ in range(U)]
                    if len(evs) % 3 == 1:
                        # double-precision users whose signals carry an integer beyond 2^24: the superposition keeps their precision
                        xs = [x.double() for x in xs]
                        xs[0][0, 0] = 16777217.0
                    xs0 = [x.clone() for x in xs]
                    m(xs)
                except Exception as ex:
                    calls = [["raised", 0]]
                    xs0 = xs = []
                tid += 1
                evs.append({"ev": "MacRun", "tid": tid, "encs": pat, "D": 1 if joint else U, "calls": calls, "encoded": enc_out if enc_out else [[0]],
                            "constraint_in": box[0] if box else [],
                            "encoded_after": [[int(v) for v in y.flatten().tolist()] for y in KEPT] if enc_out else [[0]],
                            "messages_unchanged": all(torch.equal(a, b) for a, b in zip(xs, xs0))})
    return evs


def wz_events(rng, tier):
    from kaira.models.wyner_ziv import WynerZivModel
    evs = []
    tid = 400000
    for hasQ, hasS, hasC, side in itertools.product([False, True], repeat=4):
        calls = []

        def mk(name):
            def f(*a, **k):
                calls.append(name)
                return a[0]
            return f
        m = WynerZivModel(encoder=mk("enc"), channel=mk("channel"), decoder=mk("dec"), correlation_model=mk("corr"),
                          quantizer=mk("quant") if hasQ else None, syndrome_generator=mk("synd") if hasS else None,
                          constraint=mk("constraint") if hasC else None)
        m(torch.zeros(2), side_info=torch.zeros(2) if side else None)
        tid += 1
        evs.append({"ev": "WzRun", "tid": tid, "hasQ": hasQ, "hasS": hasS, "hasC": hasC, "needCorr": not side, "calls": calls})
    return evs


# ------------------------------------------------------------------------------------------ main
def run(run):
    torch.set_num_threads(1)
    rng = random.Random(run.seed)
    quick = run.tier == "quick"
    maxn = 4 if quick else 5
    only = run.only
    run.rule = ("schedule classes = (N, W, finish order, collect order) exported by TLC from ParallelPool; list histories "
                "exported from Pipelines; model runs with recording stages. Non-trivial = at least two branches/stages "
                "or a non-empty history; distinct by (kind, configuration, schedule/history)")

    # --- (A) design-level model checking ------------------------------------------------------
    for n in range(1, maxn + 1):
        for w in range(1, n + 1):
            r = tlc.run("MC_ParallelPool", pool_cfg(n, w), workers=8, timeout=600)
            if not r.ok:
                raise tlc.TLCFailure("ParallelPool N=%d W=%d: %s %s" % (n, w, r.errors, r.violated))
            run.add_tlc("MC_ParallelPool N=%d W=%d" % (n, w), r)
    # vacuity guard: the collection-order design must be caught by the same invariant
    r = tlc.run("MC_ParallelPool", pool_cfg(3, 2, handover="insertion", liveness=False), workers=4)
    if "AggregatorSeesDeclaredOrder" not in r.violated:
        raise tlc.TLCFailure("vacuity guard failed: insertion-order design not rejected by AggregatorSeesDeclaredOrder")
    run.extra["vacuity_guard"] = "HandOver=insertion violates AggregatorSeesDeclaredOrder (N=3,W=2)"
    maxlen = 5
    pcfg = "CONSTANTS Stages = {1,2,3}\nMaxLen = %d\nExport = TRUE\nSPECIFICATION Spec\nCHECK_DEADLOCK FALSE\n" \
           "INVARIANT RunAgreesWithList\nINVARIANT FirstTrueLaw\nINVARIANT RoundsLaw\nINVARIANT ExportInv\n" % maxlen
    rp = tlc.run("MC_Pipelines", pcfg, workers=1, timeout=900)
    if not rp.ok:
        raise tlc.TLCFailure("MC_Pipelines: %s %s\n%s" % (rp.errors, rp.violated, rp.stdout[-1500:]))
    run.add_tlc("MC_Pipelines MaxLen=%d" % maxlen, rp)
    hists = [h[1] for h in rp.tuples("HIST")]
    run.log("MC done; %d list histories exported" % len(hists))

    # --- (B) schedules exported by TLC, replayed on the real thread pool ----------------------
    events = []
    tid = 0
    sched_keys = {}
    for n in range(1, maxn + 1):
        for w in list(range(1, n + 1)):
            r = tlc.run("MC_ParallelPool", pool_cfg(n, w, export=True), workers=1, timeout=900)
            if not r.ok:
                raise tlc.TLCFailure("ParallelPool export N=%d W=%d: %s" % (n, w, r.errors))
            run.add_tlc("GEN ParallelPool N=%d W=%d" % (n, w), r, kind="gen")
            scheds = r.tuples("SCHED")
            fins = sorted({tuple(s[3]) for s in scheds})
            cols = sorted({tuple(s[4]) for s in scheds})
            if w == n and (len(fins) != _fact(n) or len(cols) != _fact(n)):
                raise tlc.TLCFailure("export incomplete: N=%d W=%d finish=%d collect=%d" % (n, w, len(fins), len(cols)))
            # collect-order binder: every collect order, for this pool size (and default size when w == n)
            for col in cols:
                for agg in (True, False):
                    for mw in ([w, None] if w == n else [w]):
                        out = run_parallel_collect(n, mw, col, aggregator=agg)
                        tid += 1
                        sched_keys[tid] = {"n": n, "w": mw, "binder": "collect", "order": list(col), "aggregator": agg}
                        events.append(par_event(tid, n, out, agg))
                        run.case(("collect", n, mw, col, agg), nontrivial=n >= 2)
            # gated binder: every feasible finish order on w workers, real timing
            fsel = fins if (n <= 3 or not quick) else rng.sample(fins, min(len(fins), 8))
            for fi_, fin in enumerate(fsel):
                ng = fi_ % 2 == 1                     # every other schedule with the model called under torch.no_grad()
                out = run_parallel_gated(n, w, fin, aggregator=True, no_grad=ng)
                tid += 1
                sched_keys[tid] = {"n": n, "w": w, "binder": "gated" + (" under no_grad" if ng else ""), "order": list(fin), "aggregator": True}
                events.append(par_event(tid, n, out, True))
                run.case(("gated", n, w, fin, ng), nontrivial=n >= 2)
    run.sample({"schedule": sched_keys[min(len(sched_keys), 7)], "event": events[min(len(events), 7) - 1]})
    run.log("%d schedule replays on the real ParallelModel" % len(events))
    mism = tv.validate(run, "Trace_Pipelines", events, name="TV parallel schedules", count_trace=False)
    run.traces += len(events)
    seen = set()
    for (t, line, clause) in mism:
        k = sched_keys[t]
        key = (clause, k["binder"])
        if key in seen:
            continue
        seen.add(key)
        run.violate(COMPONENT_PAR, clause, {"binder": k["binder"], "aggregator": k["aggregator"]},
                    {"schedule": k, "observed": events[line - 1]},
                    "aggregator input / mapping differs from declared order under TLC schedule %s" % k)

    # --- (B) list-model histories replayed ----------------------------------------------------
    # histories in which a successful remove is followed by an add and then a run: all of them are replayed on the ParallelModel in
    # both tiers (bookkeeping kept beside the step list goes stale exactly there), the others are sampled in the quick tier
    rar = [h for h in hists if _remove_add_run(h)]
    if quick and len(hists) > 1500:
        hists = rng.sample(hists, 1500)
    for kind in ("Configurable", "Sequential", "Parallel"):
        bad = 0
        for hi_, h in enumerate(hists + [x for x in rar if x not in hists] if kind == "Parallel" else hists):
            diffs = replay_history(kind, h)
            run.case((kind, _hkey(h)), nontrivial=True)
            run.traces += 1
            if not diffs and len({x["s"] for x in h if x["op"] == "add"}) < sum(1 for x in h if x["op"] == "add"):
                # a stage id repeats: replay again with ONE object per id (the same step object declared twice)
                diffs = replay_history(kind, h, shared=True)
                run.case((kind, "shared", _hkey(h)), nontrivial=True)
                run.traces += 1
            if diffs and bad < 1:
                bad += 1
                run.violate({"Configurable": "ConfigurableModel", "Sequential": "SequentialModel", "Parallel": "ParallelModel"}[kind],
                            "list_model_" + diffs[0][1], {"kind": kind}, {"history": h, "diff": diffs[0]},
                            "history replay disagrees with the Pipelines list model")
    run.sample({"history": hists[len(hists) // 2]})
    run.log("%d histories x 3 model kinds replayed" % len(hists))

    # --- (B) branching histories (add / remove / set default / run) exported by TLC ------------------
    bl = 4 if quick else 5
    rb = tlc.run("MC_Branching", 'CONSTANTS Names = {"a","b","c"}\nInputs = {1, 2}\nMaxLen = %d\nExport = TRUE\nSPECIFICATION Spec\nCHECK_DEADLOCK FALSE\nINVARIANT NoDuplicates\n'
                 'INVARIANT SelectedIsFirstTrue\nINVARIANT SelectionHasNoMemory\nINVARIANT ExportInv\n' % bl, workers=1, timeout=1800, heap="12g")
    if not rb.ok:
        raise tlc.TLCFailure("MC_Branching: %s %s" % (rb.errors, rb.violated))
    run.add_tlc("MC_Branching MaxLen=%d" % bl, rb)
    bh = [h[1] for h in rb.tuples("BHIST")]
    if len(bh) != 2 * 18 ** (bl - 1):
        raise tlc.TLCFailure("branching export incomplete: %d" % len(bh))
    badb = False
    for h in bh:
        d = replay_branching(h)
        run.traces += 1
        run.case(("branching", tuple((x[0], x[1], tuple(x[2]), x[5]) for x in h)), nontrivial=True)
        if d and not badb:
            badb = True
            run.violate("BranchingModel", d[1], {"kind": "Branching"}, {"history": h, "step": d[0], "expected": d[2], "observed": d[3]},
                        "history replay disagrees with Branching.tla")
    run.sample({"branching_history": bh[len(bh) // 2]})
    run.log("%d branching histories replayed" % len(bh))

    # --- (C) direct runs validated by TLC ------------------------------------------------------
    evs = seq_events(rng, run.tier) + branch_events(rng, run.tier) + feedback_events(rng, run.tier) + \
        mac_events(rng, run.tier) + wz_events(rng, run.tier)
    comp = {"SeqRun": None, "BranchRun": "BranchingModel", "FbRun": "FeedbackChannelModel", "MacRun": "MultipleAccessChannelModel",
            "WzRun": "WynerZivModel"}
    for e in evs:
        run.case((e["ev"], e["tid"]), nontrivial=True)
    mism = tv.validate(run, "Trace_Pipelines", evs, name="TV model runs", count_trace=False)
    run.traces += len(evs)
    run.sample({"event": evs[3]})
    run.sample({"event": [e for e in evs if e["ev"] == "MacRun"][-1]})
    seen = set()
    for (t, line, clause) in mism:
        e = evs[line - 1]
        c = comp[e["ev"]] or (e["kind"] + "Model")
        if (c, clause) in seen:
            continue
        seen.add((c, clause))
        run.violate(c, clause, {"event": e["ev"]}, e, "trace event rejected by Trace_Pipelines clause %s" % clause)
    # binding self-test (thorough, or always cheap enough): corrupt one event, demand rejection at that line
    def corrupt(ev2):
        i = next(i for i, e in enumerate(ev2) if e["ev"] == "SeqRun" and len(e["steps"]) >= 2 and e["steps"][0] != e["steps"][-1])
        ev2[i]["calls"] = list(reversed(ev2[i]["calls"]))
        ev2[i]["out"] = list(reversed(ev2[i]["out"]))
        return i + 1
    if not any(m for m in mism):
        ok, msg = tv.selftest_binding("Trace_Pipelines", evs[:200], corrupt)
        if not ok:
            raise tlc.TLCFailure("binding self-test failed: " + msg)
        run.extra["binding_selftest"] = "reversing one SeqRun call log is rejected at that line"
    # --- (D) the repository's own tests as a trace source: every SequentialModel / DeepJSCCModel / ChannelCodeModel run they make --------------
    if not run.only:
        repo_test_traces(run)
    run.assumptions += ["branch callables are opaque: the pool model abstracts a branch to Start/Finish",
                        "as_completed may legally yield finished futures in any order (collect-order binder)"]
    run.exhaustive = True


def repo_test_traces(run):
    import json
    import os
    import subprocess
    import tempfile
    from . import core
    fd, out = tempfile.mkstemp(prefix="kvrepotrace_", suffix=".ndjson")
    os.close(fd)
    try:
        env = dict(os.environ, KV_TRACE_OUT=out, PYTHONPATH=core.ROOT + os.pathsep + core.REPO)
        cmd = ["/venv/bin/python", "-m", "pytest", "-q", "-p", "no:cacheprovider", "-p", "kv.repotrace_seq_plugin", "tests/models/test_models_generic.py", "tests/models/test_models_base.py",
               "tests/models/test_models_channel_code.py", "tests/models/test_models_deepjscc.py", "-q"]
        pr = subprocess.run(cmd, cwd=core.REPO, env=env, stdout=subprocess.PIPE, stderr=subprocess.STDOUT, text=True, timeout=1200)
        evs = [json.loads(ln) for ln in open(out)] if os.path.getsize(out) else []
    finally:
        try:
            os.unlink(out)
        except OSError:
            pass
    if len(evs) < 5:
        raise tlc.TLCFailure("repository tests produced only %d pipeline runs (pytest: %s)" % (len(evs), (pr.stdout.strip().splitlines() or ["?"])[-1]))
    for e in evs:
        run.case(("repo-tests", e["tid"]), nontrivial=len(e["steps"]) >= 2)
    mism = tv.validate(run, "Trace_Pipelines", evs, name="TV repository tests (sequential pipeline runs)", count_trace=False)
    run.traces += len(evs)
    run.extra["repository_test_trace"] = {"pipeline_runs": len(evs), "pytest": (pr.stdout.strip().splitlines() or ["?"])[-1][:120]}
    seen = set()
    for (t, line, clause) in mism:
        e = evs[line - 1]
        if (e["kind"], clause) in seen:
            continue
        seen.add((e["kind"], clause))
        run.violate(e["kind"], clause, {"event": "SeqRun", "form": "repository_tests"}, e, "pipeline run recorded from the repository's own tests rejected by Trace_Pipelines")


def _fact(n):
    f = 1
    for i in range(2, n + 1):
        f *= i
    return f


def _remove_add_run(h):
    ops = [o["op"] for o in h]
    for i, o in enumerate(ops):
        if o == "remove" and not h[i]["raised"] and "add" in ops[i + 1:]:
            j = i + 1 + ops[i + 1:].index("add")
            if any(op not in ("add", "remove") for op in ops[j + 1:]):
                return True
    return False


def _hkey(h):
    return tuple((x["op"], x.get("s", x.get("i", x.get("extra")))) for x in h)
