"""C10 - soft-input decoders are exact where the algorithm is; clean input decodes clean.

MC : MC_SoftDecoding - Wagner's rule equals brute-force soft ML on every tie-free integer vector; the cycle-free test and the flooding
     min-sum decoder of the spec behave as they should on a path graph.
TV : Clean (BP exact/Taylor, min-sum plain/scaled/normalised/offset, Wagner, soft Reed-Muller on noise-free LLRs of every codeword, several
     magnitudes and iteration counts, output shape), Wagner (arbitrary integer vectors vs brute-force soft ML in TLC), BpExact (tree-structured
     parity checks, inputs on the ln 2 lattice: exp(LLR_out) vs the exact rational posterior), MinSum (soft output vs the spec's flooding
     min-sum with rational alpha and integer beta; including the sub-offset corner, where a message weaker than the offset becomes zero) and Rescale events, judged by Trace_Soft.
"""
import itertools
import math
import random

import torch
from .core import sint

from . import fec, tlc, tv

LEVEL = "model_checking"
U = 320


def tree_H(rng, n, r):
    """Random parity-check matrix whose Tanner graph is a tree covering every variable (every check has degree >= 2)."""
    assert n >= r + 1
    vars_ = list(range(n))
    rng.shuffle(vars_)
    H = [[0] * n for _ in range(r)]
    used = [vars_.pop(), vars_.pop()]
    H[0][used[0]] = H[0][used[1]] = 1
    for c in range(1, r):
        H[c][rng.choice(used)] = 1          # hang the new check on an existing variable ...
        v = vars_.pop()
        H[c][v] = 1                          # ... and give it a fresh variable of its own
        used.append(v)
    while vars_:
        v = vars_.pop()
        H[rng.randrange(r)][v] = 1           # remaining variables are leaves of random checks
        used.append(v)
    return H


def sparse_H(rng, n, r):
    for _ in range(200):
        H = [[1 if rng.random() < 3.0 / n else 0 for _ in range(n)] for _ in range(r)]
        rows = [sum(b << j for j, b in enumerate(row)) for row in H]
        if fec._rank(rows) == r and all(sum(row) >= 2 for row in H) and all(any(col) for col in zip(*H)):
            return H
    return tree_H(rng, n, r)


_CALLS = [0]


def _in_context(f):
    """Run f() plainly, under torch.no_grad(), under torch.inference_mode(), in turn: a decoder's answer does not depend on the autograd mode."""
    _CALLS[0] += 1
    w = _CALLS[0] % 3
    if w == 1:
        with torch.no_grad():
            return f()
    if w == 2:
        with torch.inference_mode():
            return f()
    return f()


def bits(t):
    return [sint(float(v)) if float(v) in (0.0, 1.0) else -1 for v in t.reshape(-1).tolist()]


def run(run):
    rng = random.Random(run.seed)
    quick = run.tier == "quick"
    run.rule = ("(code, decoder, options) x every codeword at several LLR magnitudes; integer vectors for Wagner / min-sum; ln 2-lattice vectors on "
                "tree-structured codes for BP; non-trivial = non-zero codeword or arbitrary vector; distinct by (code, decoder options, input)")
    r = tlc.run("MC_SoftDecoding", "SPECIFICATION Spec\nCHECK_DEADLOCK FALSE\nINVARIANT WagnerIsML\nINVARIANT PathIsTree\nINVARIANT CleanMinSum\n", workers=16, timeout=900)
    if not r.ok:
        raise tlc.TLCFailure("MC_SoftDecoding: %s %s" % (r.errors, r.violated))
    run.add_tlc("MC_SoftDecoding", r)
    from kaira.models.fec import decoders as D
    from kaira.models.fec import encoders as E
    evs, meta = [], []
    tid = 0

    def add(ev, comp, cfg):
        nonlocal tid
        tid += 1
        ev["tid"] = tid
        evs.append(ev)
        meta.append((comp, cfg))

    # ---------------------------------------------------------------- codes
    codes = []
    for (n, rr) in ([(6, 3), (8, 4), (10, 5), (12, 6)] if quick else [(6, 3), (8, 4), (10, 5), (12, 6), (16, 8), (20, 10), (24, 12)]):
        for kind in ("sparse", "tree"):
            H = sparse_H(rng, n, rr) if kind == "sparse" else tree_H(rng, n, rr)
            if len(H) == 0:
                continue
            codes.append(("LDPC(%s,%dx%d)" % (kind, len(H), n), (lambda H=H: E.LDPCCodeEncoder(check_matrix=torch.tensor(H, dtype=torch.int64))), H, kind))
            # a twin with the same check degrees but the ones in other columns, decoded right after it with the same batch sizes: nothing derived
            # from one parity-check matrix may be reused for another
            if n <= 10:
                perm = list(range(n))
                for _ in range(20):
                    rng.shuffle(perm)
                    H2 = [[row[perm[j]] for j in range(n)] for row in H]
                    if H2 != H:
                        break
                if H2 != H:
                    codes.append(("LDPC(%s,%dx%d,twin)" % (kind, len(H), n), (lambda H2=H2: E.LDPCCodeEncoder(check_matrix=torch.tensor(H2, dtype=torch.int64))), H2, kind))
    codes.append(("Hamming(7,4)", (lambda: E.HammingCodeEncoder(3)), None, "bundled"))
    codes.append(("Repetition(5)", (lambda: E.RepetitionCodeEncoder(5)), None, "bundled"))
    codes.append(("SPC(4)", (lambda: E.SingleParityCheckCodeEncoder(4)), None, "bundled"))
    bpopts = [("BeliefPropagationDecoder", dict(arctanh=True)), ("BeliefPropagationDecoder", dict(arctanh=False)),
              ("MinSumLDPCDecoder", dict()), ("MinSumLDPCDecoder", dict(scaling_factor=0.75)), ("MinSumLDPCDecoder", dict(normalized=True)),
              ("MinSumLDPCDecoder", dict(scaling_factor=1.0, offset=0.5))]
    for (cname, mk, H, kind) in codes:
        try:
            enc = mk()
        except Exception as ex:
            run.violate("LDPCCodeEncoder", "construction_raised", {"code": cname}, {"error": repr(ex)[:200]})
            continue
        n, k = int(enc.code_length), int(enc.code_dimension)
        Hm = [[int(v) for v in row] for row in enc.check_matrix.tolist()]
        add({"ev": "Code", "n": n, "H": Hm, "enum": False}, "code", {"code": cname})
        msgs = [list(m) for m in itertools.product([0, 1], repeat=k)]
        if len(msgs) > (16 if quick else 64):
            msgs = rng.sample(msgs, 16 if quick else 64)
        M = torch.tensor(msgs, dtype=torch.float32)
        Cw = enc(M)
        for (dname, opt) in bpopts:
            for iters in ((5,) if quick else (1, 5, 20)):
                cfg = dict(opt, code_kind=kind, iters=iters)
                try:
                    dec = getattr(D, dname)(enc, bp_iters=iters, **opt)
                except Exception as ex:
                    run.violate(dname, "construction_raised", cfg, {"code": cname, "error": repr(ex)[:200]})
                    continue
                alpha = 0.75 if (opt.get("normalized") or opt.get("scaling_factor") == 0.75) else 1.0
                beta = 0.2 if opt.get("normalized") else opt.get("offset", 0.0)
                for mag in ((0.05, 0.5, 8.0) if quick else (0.001, 0.05, 0.5, 2.0, 8.0, 50.0)):
                    Y = (1 - 2 * Cw) * mag
                    try:
                        O = _in_context(lambda: dec(Y))
                        shape_ok = tuple(O.shape) == (len(msgs), k)
                        outs = [bits(O[i]) for i in range(len(msgs))]
                        raised = False
                    except Exception as ex:
                        outs, raised, shape_ok = [[] for _ in msgs], True, False
                    for m, o in zip(msgs, outs):
                        add({"ev": "Clean", "msg": m, "out": o, "raised": raised, "shape_ok": shape_ok}, dname, dict(cfg, code=cname))
                        run.case((cname, dname, str(sorted(opt.items())), iters, mag, tuple(m)), nontrivial=any(m))
    # ---------------------------------------------------------------- Wagner
    for k in range(1, (8 if quick else 11)):
        enc = E.SingleParityCheckCodeEncoder(k)
        dec = D.WagnerSoftDecisionDecoder(enc)
        n = k + 1
        add({"ev": "Code", "n": n, "H": [[1] * n], "enum": False}, "code", {"code": "SPC(%d)" % k})
        msgs = [list(m) for m in itertools.product([0, 1], repeat=k)]
        if len(msgs) > 32:
            msgs = rng.sample(msgs, 32)
        Cw = enc(torch.tensor(msgs, dtype=torch.float32))
        for mag in (0.5, 50.0):
            O = dec((1 - 2 * Cw) * mag)
            for m, i in zip(msgs, range(len(msgs))):
                add({"ev": "Clean", "msg": m, "out": bits(O[i]), "raised": False, "shape_ok": tuple(O.shape) == (len(msgs), k)}, "WagnerSoftDecisionDecoder", {"k": k})
                run.case(("wagner-clean", k, mag, tuple(m)), nontrivial=any(m))
        for layout in ("1d", "2d", "blocks", "transposed view", "strided view"):
            cnt = (10 if quick else 60)
            vecs = [[rng.choice([-1, 1]) * rng.randint(1, 40) for _ in range(n)] for _ in range(cnt)]
            # quantised inputs: few magnitude levels, so the least reliable magnitude is usually shared by several positions (ties)
            for j in range(cnt // 2):
                vecs[2 * j] = [rng.choice([-1, 1]) * rng.choice([1, 1, 2, 5]) for _ in range(n)]
            try:
                if layout == "1d":
                    outs = [bits(dec(torch.tensor(v, dtype=torch.float32))) for v in vecs]
                elif layout == "2d":
                    O = dec(torch.tensor(vecs, dtype=torch.float32))
                    outs = [bits(O[i]) for i in range(cnt)]
                elif layout in ("transposed view", "strided view"):      # the same matrix as a non-contiguous view
                    from .core import noncontiguous, transposed_view
                    T_ = torch.tensor(vecs, dtype=torch.float32)
                    O = dec(transposed_view(T_) if layout == "transposed view" else noncontiguous(T_))
                    outs = [bits(O[i]) for i in range(cnt)]
                else:
                    O = dec(torch.tensor(vecs, dtype=torch.float32).reshape(cnt // 2, 2 * n)).reshape(cnt, k)
                    outs = [bits(O[i]) for i in range(cnt)]
                raised = False
            except Exception as ex:
                outs, raised = [[] for _ in vecs], True
            for v, o in zip(vecs, outs):
                add({"ev": "Wagner", "y": v, "out": o, "raised": raised}, "WagnerSoftDecisionDecoder", {"k": k, "layout": layout})
                run.case(("wagner", k, layout, tuple(v)), nontrivial=True)
    # ---------------------------------------------------------------- soft Reed-Muller (clean)
    for (r_, m_) in ((1, 3), (1, 4), (2, 4)) if quick else ((0, 2), (1, 2), (1, 3), (2, 3), (1, 4), (2, 4), (1, 5), (2, 5)):
        enc = E.ReedMullerCodeEncoder(r_, m_)
        dec = D.ReedMullerDecoder(enc, input_type="soft")
        k = int(enc.code_dimension)
        msgs = [[rng.randrange(2) for _ in range(k)] for _ in range(6)]
        Cw = enc(torch.tensor(msgs, dtype=torch.float32))
        add({"ev": "Code", "n": int(enc.code_length), "H": [[0]], "enum": False}, "code", {"code": "RM(%d,%d)" % (r_, m_)})
        try:
            O = dec((1 - 2 * Cw) * 2.0)
            outs, raised = [bits(O[i]) for i in range(len(msgs))], False
        except Exception:
            outs, raised = [[] for _ in msgs], True
        for m, o in zip(msgs, outs):
            add({"ev": "Clean", "msg": m, "out": o, "raised": raised, "shape_ok": True}, "ReedMullerDecoder", {"input_type": "soft", "r": r_, "m": m_})
            run.case(("rm-soft", r_, m_, tuple(m)), nontrivial=any(m))
    # ---------------------------------------------------------------- BP exact posteriors on trees (ln 2 lattice)
    for (n, rr) in ([(4, 2), (5, 3), (6, 3)] if quick else [(3, 1), (4, 2), (5, 2), (5, 3), (6, 3), (6, 4), (7, 4)]):
        for rep in range(2 if quick else 5):
            H = tree_H(rng, n, rr)
            if not H:
                continue
            enc = E.LDPCCodeEncoder(check_matrix=torch.tensor(H, dtype=torch.int64))
            for arct in (True, False):
                dec = D.BeliefPropagationDecoder(enc, bp_iters=2 * n + 2, arctanh=arct)
                if rep % 2 == 1:
                    dec.eval()          # every other graph: the decoder in eval mode
                add({"ev": "Code", "n": n, "H": H, "enum": True}, "code", {"code": "tree(%dx%d)" % (len(H), n)})
                for _ in range(6 if quick else 40):
                    a = [rng.randint(-2, 2) for _ in range(n)]
                    y = torch.tensor([[v * math.log(2.0) for v in a]], dtype=torch.float32)
                    try:
                        res = _in_context(lambda: dec(y, return_soft=True))
                        soft = res[1].reshape(-1).double()
                        p12 = [sint(min(math.exp(float(v)), 5e5) * 4096) for v in soft]
                        q12 = [sint(min(math.exp(-float(v)), 5e5) * 4096) for v in soft]
                        raised = False
                    except Exception as ex:
                        p12 = q12 = [0] * n
                        raised = True
                    add({"ev": "BpExact", "a": a, "p12": p12, "q12": q12, "raised": raised}, "BeliefPropagationDecoder", {"arctanh": arct, "graph": "tree"})
                    run.case(("bp-exact", n, rr, rep, arct, tuple(a)), nontrivial=any(a))
    # ---------------------------------------------------------------- min-sum rule on integers
    # random sparse graphs, and fixed graphs whose checks have degree 2 (alone and next to wider checks): a degree-2 check passes the
    # other edge's message on, and the scaling / offset must be applied to it as to any other check
    graphs = [sparse_H(rng, n, rr) for (n, rr) in ([(6, 3), (7, 3)] if quick else [(5, 2), (6, 3), (7, 3), (8, 4)])]
    graphs += [[[1, 1, 0, 0, 0, 0], [0, 1, 1, 1, 0, 0], [0, 0, 0, 1, 1, 1]], [[1, 1, 0, 0, 0], [0, 1, 1, 0, 0], [0, 0, 1, 1, 0], [0, 0, 0, 1, 1]]]
    if not quick:
        graphs += [[[1, 1, 0, 0, 0, 0, 0], [1, 0, 1, 1, 1, 0, 0], [0, 0, 0, 0, 1, 1, 0], [0, 0, 1, 0, 0, 1, 1]]]
    for H in graphs:
        n, rr = len(H[0]), len(H)
        enc = E.LDPCCodeEncoder(check_matrix=torch.tensor(H, dtype=torch.int64))
        Hm = [[int(v) for v in row] for row in enc.check_matrix.tolist()]
        add({"ev": "Code", "n": n, "H": Hm, "enum": False}, "code", {"code": "LDPC(%dx%d)" % (rr, n)})
        for (opt, an, ad, beta) in ((dict(), 1, 1, 0), (dict(scaling_factor=0.75), 3, 4, 0), (dict(normalized=True), 3, 4, 64), (dict(scaling_factor=1.0, offset=0.5), 1, 1, 160)):
            for iters in (1, 2, 3):
                dec = D.MinSumLDPCDecoder(enc, bp_iters=iters, **opt)
                if iters == 2:
                    dec.eval()
                for _ in range(4 if quick else 25):
                    y = [rng.choice([-1, 1]) * rng.randint(2, 9) for _ in range(n)]
                    try:
                        res = _in_context(lambda: dec(torch.tensor([y], dtype=torch.float32), return_soft=True))
                        soft = [sint(float(v) * U) for v in res[1].reshape(-1)]
                        hard1 = bits(res[0])
                        raised = False
                    except Exception as ex:
                        soft, hard1, raised = [0] * n, [], True
                    add({"ev": "MinSum", "y": [v * U for v in y], "iters": iters, "an": an, "ad": ad, "beta": beta, "soft": soft, "raised": raised, "unit": U},
                        "MinSumLDPCDecoder", dict(opt, iters=iters))
                    run.case(("minsum", n, str(sorted(opt.items())), iters, tuple(y)), nontrivial=True)
                    if beta == 0 and not raised:
                        c = rng.choice([2, 3, 10])
                        try:
                            res2 = dec(torch.tensor([[v * c for v in y]], dtype=torch.float32), return_soft=True)
                            add({"ev": "Rescale", "c": c, "soft1": soft, "soft2": [sint(float(v) * U) for v in res2[1].reshape(-1)], "hard1": hard1,
                                 "hard2": bits(res2[0]), "raised": False}, "MinSumLDPCDecoder", dict(opt, iters=iters))
                        except Exception:
                            add({"ev": "Rescale", "c": c, "soft1": soft, "soft2": soft, "hard1": hard1, "hard2": [], "raised": True}, "MinSumLDPCDecoder", dict(opt, iters=iters))
    run.log("%d events" % len(evs))
    mism = tv.validate_sharded(run, "Trace_Soft", evs, (lambda e: e["ev"] == "Code"), name="TV C10", max_events=3000, jobs=10,
                                cost=(lambda e: (2 ** max(0, len(e["y"]) - 5) if e["ev"] == "Wagner" else (4 if e["ev"] in ("BpExact", "MinSum") else 1))))
    pr = getattr(run, "last_prints", [])
    run.extra["wagner_inputs_with_tied_ml_codewords_judged_too"] = len([p for p in pr if isinstance(p, list) and p and p[0] == "TIE"])
    run.extra["min_sum_inputs_in_sub_offset_corner_judged_too"] = len([p for p in pr if isinstance(p, list) and p and p[0] == "SUBOFFSET"])
    seen = set()
    for (t, line, clause) in mism:
        e = evs[line - 1]
        comp, cfg = meta[line - 1]
        key = (comp, clause, str(sorted((k, v) for k, v in cfg.items() if k != "code")))
        if key in seen:
            continue
        seen.add(key)
        run.violate(comp, clause, cfg, e, "%s rejected by Trace_Soft clause %s" % (e["ev"], clause))
    run.sample(next(e for e in evs if e["ev"] == "Wagner"))
    run.sample(next(e for e in evs if e["ev"] == "BpExact"))
    run.sample(next(e for e in evs if e["ev"] == "MinSum"))
    if not run.only and not [m for m in mism if m[1] <= 30]:        # the self-test slice (the first 30 events) was accepted
        def corrupt(ev2):
            i = next(i for i, e in enumerate(ev2) if e["ev"] == "Clean" and len(e["out"]) >= 1)
            ev2[i]["out"] = [1 - ev2[i]["out"][0]] + ev2[i]["out"][1:]
            return i + 1
        ok, msg = tv.selftest_binding("Trace_Soft", evs[:30], corrupt, "clean_llrs_decode_to_the_message")
        if not ok:
            raise tlc.TLCFailure("binding self-test failed: " + msg)
        run.extra["binding_selftest"] = "flipping one decoded bit is rejected at that line"
    run.assumptions += ["BP exactness compared at 0.25% relative (float32, 1e-10 inside a log, clamp at 0.999); inputs |LLR| <= 2 ln 2 keep all messages inside the clipping range",
                        "min-sum compared in units of 1/320 with tolerance 2 units"]
