"""pytest plugin (loaded with -p kv.repotrace_seq_plugin, nothing in /repo is edited): records every SequentialModel.forward call (including its
subclasses DeepJSCCModel, ChannelCodeModel, ...) that the repository's own tests make, as SeqRun events for Trace_Pipelines.tla: the declared
steps 1..n and the order in which their forward hooks fired. Steps that are not nn.Modules, or a step object declared twice, make the call untracked.
The recording never changes a test's outcome."""
import json
import os

EVENTS = []


def pytest_configure(config):
    import torch.nn as nn
    from kaira.models.generic.sequential import SequentialModel
    orig = SequentialModel.forward

    def forward(self, *a, **k):
        try:
            steps = list(self.steps)
            ok = len(steps) > 0 and all(isinstance(s, nn.Module) for s in steps) and len({id(s) for s in steps}) == len(steps)
        except Exception:
            ok = False
        if not ok:
            return orig(self, *a, **k)
        order = []
        hooks = []
        try:
            for idx, s in enumerate(steps, start=1):
                hooks.append(s.register_forward_hook(lambda m, i, o, idx=idx: order.append(idx)))
            r = orig(self, *a, **k)
        finally:
            for h in hooks:
                h.remove()
        EVENTS.append({"ev": "SeqRun", "kind": type(self).__name__, "steps": list(range(1, len(steps) + 1)), "out": list(order),
                       "calls": [[i, 0] for i in order], "extra": 0})
        return r
    SequentialModel.forward = forward


def pytest_unconfigure(config):
    out = os.environ.get("KV_TRACE_OUT")
    if out:
        with open(out, "w") as f:
            for i, e in enumerate(EVENTS, start=1):
                e["tid"] = i
                f.write(json.dumps(e, separators=(",", ":")) + "\n")
