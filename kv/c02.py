"""C02 - hard-decision decoders correct every error pattern within the advertised capability; complete decoders are ML.

MC : MC_Decoding - on the spec's own constructions the nearest-codeword rule corrects every pattern of weight <= t
     (so the clause is satisfiable) and DistanceLayers/DistToCode agree with brute-force nearest-codeword search.
TV : per (code, decoder) pairing: Decode events for all codewords x all error patterns of weight <= t (exhaustive when
     the product is small, seeded per weight above) and DecodeML events for arbitrary received words; Trace_BlockCode
     decides `out = m` and `Wt(Enc(out) xor r) = distance of r to the code` from the published generator matrix.
"""
import itertools
import random

import torch

from . import c01, fec, tlc, tv

LEVEL = "model_checking"


def patterns(n, t, cap, rng):
    """Error patterns (ints) of weight 0..t: exhaustive when few, else seeded per weight."""
    out = [0]
    for w in range(1, t + 1):
        cnt = 1
        for i in range(w):
            cnt = cnt * (n - i) // (i + 1)
        if cnt <= cap:
            for pos in itertools.combinations(range(n), w):
                out.append(sum(1 << p for p in pos))
        else:
            seen = set()
            while len(seen) < cap:
                seen.add(sum(1 << p for p in rng.sample(range(n), w)))
            out += sorted(seen)
    return out


def decoders_for(entry, enc, quick):
    from kaira.models.fec import decoders as D
    n, k = int(enc.code_length), int(enc.code_dimension)
    out = []
    H = getattr(enc, "check_matrix", None)
    full = H is not None and H.shape[1] == n and fec._rank(fec.mat_rows(H)) == n - k
    # the table construction only terminates quickly when H has full rank (2^(n-k) distinct syndromes exist);
    # the Reed-Muller encoder's own syndrome is a 2^k brute-force search per call
    if n - k <= (8 if quick else 10) and n <= 31 and (full or n <= 12) and entry.family != "rm":
        out.append(("SyndromeLookupDecoder", lambda: D.SyndromeLookupDecoder(enc), True))
    if k <= (8 if quick else 10) or (k <= 12 and entry.family in ("hamming", "golay")):      # the larger codebooks (2^11, 2^12 codewords) on two families
        out.append(("BruteForceMLDecoder", lambda: D.BruteForceMLDecoder(enc), True))
    if entry.family == "bch" and entry.info in ("left", "right"):      # the property pairs Berlekamp-Massey with both standard layouts; an index list permutes the coordinates, the code is then no longer cyclic
        out.append(("BerlekampMasseyDecoder", lambda: D.BerlekampMasseyDecoder(enc), False))
    if entry.family == "rm":
        out.append(("ReedMullerDecoder", lambda: D.ReedMullerDecoder(enc, input_type="hard"), True))
        out.append(("ReedMullerCodeEncoder.inverse_encode", lambda: (lambda r, **kw: enc.inverse_encode(r)[0]), True))
    if entry.family == "hamming":
        out.append(("HammingCodeEncoder.inverse_encode", lambda: (lambda r, **kw: enc.inverse_encode(r)[0]), False))
    return out


def object_events(entry, enc, tid0, rng, quick, run):
    n, k = int(enc.code_length), int(enc.code_dimension)
    d, tadv = fec.advertised_d(entry, enc)
    t = tadv if tadv >= 0 else ((d - 1) // 2 if d > 0 else 0)
    if entry.family == "hamming":
        t = 1
    decs = decoders_for(entry, enc, quick)
    if not decs:
        return [], tid0 - 1
    ml_ok = n <= (12 if quick else 16)
    evs = [fec.construct_event(entry, enc, tid0, ml=ml_ok)]
    if entry.family == "hamming":
        evs[0]["t"] = 1
    tid = tid0
    slow = {"BerlekampMasseyDecoder": 1, "ReedMullerDecoder": 1, "SyndromeLookupDecoder": 1}
    import time as _t
    for (dname, mk, complete) in decs:
        _t0 = _t.time()
        try:
            dec = mk()
        except Exception as e:
            run.violate(dname, "decoder_construction_raised", dict(entry.config(), decoder=dname), {"object": entry.name, "error": repr(e)[:200]})
            continue
        budget = (400 if dname in slow else 3000) if quick else (400 if dname in slow else 3000)
        if dname == "BerlekampMasseyDecoder" and n > 15 and not quick:
            budget = 80                         # pure-Python field arithmetic: ~50 ms per word at n = 31
        if entry.family == "rm" and k >= 14:
            budget = min(budget, 96)            # a 2^16-word codebook is compared with every received word
        if entry.component in ("ReedSolomonCodeEncoder",) or dname == "ReedMullerDecoder":
            budget = min(budget, 200)           # components with a listed finding: enough cases to re-confirm it
        pats = patterns(n, t, 200 if not quick else 60, rng)
        msgs = list(range(1 << k)) if (1 << k) * len(pats) <= budget else None
        cases = []
        if msgs is not None:
            cases = [(m, e) for m in msgs for e in pats]
        else:
            per = max(1, budget // max(1, len(pats)))
            for e in pats:
                for _ in range(per):
                    cases.append((rng.randrange(1 << k), e))
            cases = cases[:budget]
        M = torch.stack([fec.from_int(m, k) for m, _ in cases])
        try:
            C = enc(M)
        except Exception as e:
            run.violate(entry.component, "encoder_raised", entry.config(), {"object": entry.name, "error": repr(e)[:200]})
            return evs, tid
        E = torch.stack([fec.from_int(e, n) for _, e in cases])
        R = (C + E) % 2
        outs, errs = _decode_all(dec, R, k, want_errors=dname in ("SyndromeLookupDecoder", "BruteForceMLDecoder", "BerlekampMasseyDecoder"))
        for i, (m, e) in enumerate(cases):
            tid += 1
            o = outs[i]
            evs.append({"ev": "Decode", "tid": tid, "decoder": dname, "m": fec.limbs(m, k), "e": fec.limbs(e, n),
                        "raised": o is None, "out": fec.limbs(o if o is not None and o >= 0 else 0, k) if o is not None else [0],
                        "errs": fec.limbs(errs[i], n) if (errs is not None and errs[i] is not None and errs[i] >= 0 and o is not None) else [-1]})
            run.case((entry.name, dname, m, e), nontrivial=e != 0)
        # the same received words as float64 / integer / boolean / half-precision tensors (first 64 cases): a decoder may reject the dtype, but an answer must not differ
        sub = min(len(cases), 64)
        for dt in (torch.float64, torch.int64, torch.uint8, torch.int8, torch.bool, torch.float16, torch.bfloat16):
            try:
                o2, _ = _decode_all(dec, R[:sub].to(dt), k, want_errors=False)
            except Exception:
                continue
            for i in range(sub):
                run.case((entry.name, dname, cases[i][0], cases[i][1], str(dt)), nontrivial=cases[i][1] != 0)
                if o2[i] is not None and o2[i] != outs[i]:
                    tid += 1
                    evs.append({"ev": "Decode", "tid": tid, "decoder": dname, "m": fec.limbs(cases[i][0], k), "e": fec.limbs(cases[i][1], n), "raised": False,
                                "out": fec.limbs(o2[i] if o2[i] >= 0 else 0, k), "errs": [-1], "dtype": str(dt).replace("torch.", "")})
        # the same words through the decoder after the nn.Module protocol (deep copy, pickle, eval mode) and under torch.no_grad() /
        # inference_mode(): a form may be unavailable or reject the input, but an answer must not differ
        from .core import call_contexts, module_forms
        sub2 = min(len(cases), 32)
        variants = []
        if hasattr(dec, "forward"):
            variants += [(kd, (lambda r, o=o2_: o(r))) for kd, o2_ in module_forms(dec, kinds=("deepcopy", "pickle", "eval"))]
        variants += [(kd, (lambda r, c=c_: _under(c, dec, r))) for kd, c_ in call_contexts()]
        from .core import noncontiguous, transposed_view
        variants += [("strided view", (lambda r: dec(noncontiguous(r)))), ("transposed view", (lambda r: dec(transposed_view(r))))]
        for kd, fn in variants:
            try:
                o3, _ = _decode_all(fn, R[:sub2], k, want_errors=False)
            except Exception:
                continue
            for i in range(sub2):
                run.case((entry.name, dname, cases[i][0], cases[i][1], kd), nontrivial=cases[i][1] != 0)
                if o3[i] is not None and o3[i] != outs[i]:
                    tid += 1
                    evs.append({"ev": "Decode", "tid": tid, "decoder": dname, "m": fec.limbs(cases[i][0], k), "e": fec.limbs(cases[i][1], n), "raised": False,
                                "out": fec.limbs(o3[i] if o3[i] >= 0 else 0, k), "errs": [-1], "form": kd})
        if complete and ml_ok:
            words = list(range(1 << n)) if (1 << n) <= (budget) else [rng.randrange(1 << n) for _ in range(min(budget, 600))]
            R = torch.stack([fec.from_int(w, n) for w in words])
            outs, _ = _decode_all(dec, R, k, want_errors=False)
            for w, o in zip(words, outs):
                tid += 1
                evs.append({"ev": "DecodeML", "tid": tid, "decoder": dname, "r": fec.limbs(w, n), "raised": o is None,
                            "out": fec.limbs(o if o is not None and o >= 0 else 0, k) if o is not None else [0]})
                run.case((entry.name, dname, "ml", w), nontrivial=True)
        if _t.time() - _t0 > 20:
            run.log("slow pairing %s / %s: %.0fs" % (entry.name, dname, _t.time() - _t0))
    return evs, tid


def _under(ctx, dec, r):
    with ctx():
        return dec(r)


def _decode_all(dec, R, k, want_errors, chunk=32):
    """Decode in batches of at most `chunk` rows (the brute-force decoders of the library allocate batch x 2^k x n at once);
    fall back to single words so one exception does not hide the others."""
    if R.shape[0] > chunk:
        outs, errs = [], ([] if want_errors else None)
        for i in range(0, R.shape[0], chunk):
            o, e = _decode_all(dec, R[i:i + chunk], k, want_errors, chunk)
            outs += o
            if want_errors:
                errs += e
        return outs, errs
    outs, errs = [], ([] if want_errors else None)
    try:
        if want_errors:
            res = dec(R, return_errors=True)
            O, Er = res
            Er = Er.reshape(R.shape[0], -1)
        else:
            O, Er = dec(R), None
        if isinstance(O, tuple):
            O = O[0]
        O = O.reshape(R.shape[0], -1)
        if O.shape[1] != k:
            raise ValueError("bad output shape")
        for i in range(R.shape[0]):
            outs.append(fec.to_int(O[i]))
            if want_errors:
                errs.append(fec.to_int(Er[i]) if Er.shape[1] == R.shape[1] else None)
        return outs, errs
    except Exception:
        outs, errs = [], ([] if want_errors else None)
        for i in range(R.shape[0]):
            try:
                if want_errors:
                    o, er = dec(R[i], return_errors=True)
                    errs.append(fec.to_int(er.reshape(-1)) if er.numel() == R.shape[1] else None)
                else:
                    o = dec(R[i])
                if isinstance(o, tuple):
                    o = o[0]
                o = o.reshape(-1)
                outs.append(fec.to_int(o) if o.numel() == k else None)
            except Exception:
                outs.append(None)
                if want_errors:
                    errs.append(None)
        return outs, errs


def run(run):
    rng = random.Random(run.seed)
    quick = run.tier == "quick"
    run.rule = ("(code, decoder) pairings x (message, error pattern of weight <= t) - exhaustive when the product is small, seeded per "
                "weight otherwise - and arbitrary received words for the complete decoders; non-trivial = non-zero error pattern or any ML "
                "word; distinct by (object, decoder, message, pattern)")
    r = tlc.run("MC_Decoding", "CONSTANT Big = %s\nSPECIFICATION Spec\nCHECK_DEADLOCK FALSE\nINVARIANT DecodingOK\n" % ("FALSE" if quick else "TRUE"), workers=8, timeout=1800)
    if not r.ok:
        raise tlc.TLCFailure("MC_Decoding: %s %s\n%s" % (r.errors, r.violated, r.stdout[-2000:]))
    run.add_tlc("MC_Decoding (nearest-codeword rule corrects <= t on the spec's constructions; distance layers = brute force)", r)
    cat = fec.catalogue(run.tier, rng, max_n=31, rm5=True)
    cat = [e for e in cat if e.family != "ldpc" or True]
    if run.only:
        cat = [e for e in cat if {k: v for k, v in run.only.get("config", {}).items() if k != "decoder"} == e.config()]
    run.log("catalogue: %d objects" % len(cat))
    events, owners = c01.collect(run, cat, rng, quick, object_events)
    run.log("%d events recorded" % len(events))
    mism = tv.validate_sharded(run, "Trace_BlockCode", events, (lambda e: e["ev"] == "Construct"), name="TV C02", max_events=30000, jobs=8,
                                cost=(lambda e: 8 if e["ev"] == "DecodeML" else 1))
    run.traces -= 1        # traces are counted per constructed object below
    run.traces += sum(1 for e in events if e["ev"] == "Construct")
    seen = set()
    for m in mism:
        t, line, clause = m[0], m[1], m[2]
        ev = events[line - 1]
        if ev["ev"] not in ("Decode", "DecodeML"):
            continue
        entry = owners[line - 1]
        key = (entry.name, clause, ev["decoder"])
        if key in seen:
            continue
        seen.add(key)
        cfg = dict(entry.config(), decoder=ev["decoder"])
        run.violate(ev["decoder"], clause, cfg, {"object": entry.name, "event": ev}, "%s rejected by Trace_BlockCode clause %s" % (ev["ev"], clause))
    dec_ev = [e for e in events if e["ev"] == "Decode" and e["e"] != [0]]
    if dec_ev:
        run.sample(dec_ev[0])
        run.sample(dec_ev[len(dec_ev) // 2])
    if not run.only and not [m for m in mism if m[1] <= 30]:        # the self-test slice (the first 30 events) was accepted
        def corrupt(ev2):
            i = next(i for i, e in enumerate(ev2) if e["ev"] == "Decode" and not e["raised"])
            ev2[i]["out"] = [ev2[i]["out"][0] ^ 1] + ev2[i]["out"][1:]
            return i + 1
        ok, msg = tv.selftest_binding("Trace_BlockCode", events[:30], corrupt, "corrects_every_pattern_within_capability")
        if not ok:
            raise tlc.TLCFailure("binding self-test failed: " + msg)
        run.extra["binding_selftest"] = "flipping one bit of one decoded message is rejected at that line"
    run.extra["pairings"] = len({(o.name, e.get("decoder")) for o, e in zip(owners, events) if e["ev"] == "Decode"})
