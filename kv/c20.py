"""C20 - per-sample components are pure: the batch result equals the stack of the single results.

MC  : MC_Purity - the purity law (result depends on the member only) holds for the pure design under every call history over a pool of four
      members (batches up to 3, two calls, both layouts) and is violated by the two named impure designs (position-dependent answer, stale cache).
GEN : the call histories TLC exports (batches in every order, repeated members, rows / concatenated-blocks layouts, two calls on one object) are
      replayed on real components, interleaved across two objects of the same class.
TV  : every recorded call (members, result ids, input unchanged, raised) is validated by Trace_Purity, whose state `seen` is the function
      member -> result learnt so far; single-sample calls define it, every later observation must agree or the call must raise.
"""
import contextlib
import io
import random

import torch

from . import tlc, tv

LEVEL = "model_checking"


def quiet(f, *a, **k):
    with contextlib.redirect_stdout(io.StringIO()):
        return f(*a, **k)


class Comp:
    def __init__(self, name, cls, mk, pool, call=None, blocks=True, three_d=True, dense=None):
        self.name, self.cls, self.mk, self.pool = name, cls, mk, pool
        self.dense = dense          # optional callable -> a large pool of structured neighbours (all low-weight patterns, all sign patterns, all messages)
        self.call = call or (lambda o, x: o(x))
        self.blocks = blocks
        self.three_d = three_d


def components(rng, quick):
    from kaira import constraints as K
    from kaira import modulations as M
    from kaira.models.fec import decoders as D
    from kaira.models.fec import encoders as E
    C = []

    def bitsv(v, n):
        return torch.tensor([(v >> j) & 1 for j in range(n)], dtype=torch.float32)

    def enc_pool(k):
        vals = [0, (1 << k) - 1] + [rng.randrange(1 << k) for _ in range(6)]
        out = []
        for v in vals:
            if v not in out:
                out.append(v)
        return [bitsv(v, k) for v in out[:4]]
    H6 = torch.tensor([[1, 1, 0, 1, 0, 0], [0, 1, 1, 0, 1, 0], [1, 0, 1, 0, 0, 1]])
    encs = [("HammingCodeEncoder", lambda: E.HammingCodeEncoder(3)), ("BCHCodeEncoder", lambda: E.BCHCodeEncoder(4, 5)), ("GolayCodeEncoder", lambda: E.GolayCodeEncoder()),
            ("ReedMullerCodeEncoder", lambda: E.ReedMullerCodeEncoder(1, 3)), ("SingleParityCheckCodeEncoder", lambda: E.SingleParityCheckCodeEncoder(4)),
            ("RepetitionCodeEncoder", lambda: E.RepetitionCodeEncoder(3)), ("LDPCCodeEncoder", lambda: E.LDPCCodeEncoder(check_matrix=H6)),
            ("CyclicCodeEncoder", lambda: E.CyclicCodeEncoder(code_length=7, generator_polynomial=0b1011)),
            ("LinearBlockCodeEncoder", lambda: E.LinearBlockCodeEncoder(torch.tensor([[1., 1, 0, 1, 0, 0], [0, 1, 1, 0, 1, 0], [1, 1, 1, 0, 0, 1]]))),
            ("SystematicLinearBlockCodeEncoder", lambda: E.SystematicLinearBlockCodeEncoder(torch.tensor([[1., 1, 0], [0, 1, 1], [1, 0, 1]]), information_set=[4, 0, 2]))]
    for nm, mk in encs:
        k = int(mk().code_dimension)
        C.append(Comp(nm, nm, mk, enc_pool(k), dense=(lambda k=k: [bitsv(v, k) for v in (range(1 << k) if k <= 6 else rng.sample(range(1 << k), 64))])))
        C.append(Comp(nm + ".inverse_encode", nm, mk, "codewords", call=lambda o, x: (lambda r: r[0] if isinstance(r, tuple) else r)(o.inverse_encode(x))))
    C.append(Comp("PolarCodeEncoder", "PolarCodeEncoder", lambda: quiet(E.PolarCodeEncoder, 4, 8), enc_pool(4), three_d=False))
    # hard decoders: members are received words (codeword, one error, two errors, random word)

    def recv_pool(enc, n_err=(0, 1, 2)):
        k, n = int(enc.code_dimension), int(enc.code_length)
        out = []
        for t in n_err:
            c = enc(bitsv(rng.randrange(1 << k), k).unsqueeze(0))[0].clone()
            for p in rng.sample(range(n), t):
                c[p] = 1 - c[p]
            out.append(c)
        out.append(torch.tensor([float(rng.randrange(2)) for _ in range(n)]))
        return out
    ham = E.HammingCodeEncoder(3)
    bch = E.BCHCodeEncoder(4, 5)

    def ball(enc, w):
        """All words within Hamming distance w of one codeword: neighbours that share part of their syndrome."""
        import itertools as it
        def f():
            k, n = int(enc.code_dimension), int(enc.code_length)
            c = enc(bitsv(rng.randrange(1 << k), k).unsqueeze(0))[0].clone()
            out = []
            for t in range(w + 1):
                for pos in it.combinations(range(n), t):
                    v = c.clone()
                    for p_ in pos:
                        v[p_] = 1 - v[p_]
                    out.append(v)
            return out
        return f

    def signs(n, cap=64):
        def f():
            mags = [1.0 + 0.5 * j for j in range(n)]
            pats = list(range(1 << n))
            if len(pats) > cap:
                pats = rng.sample(pats, cap)
            out = []
            for v in pats:
                mg = list(mags)
                rng.shuffle(mg)          # the least reliable position differs from member to member
                out.append(torch.tensor([(-m if (v >> j) & 1 else m) for j, m in enumerate(mg)]))
            return out
        return f
    C.append(Comp("SyndromeLookupDecoder/Hamming(7,4)", "SyndromeLookupDecoder", lambda: D.SyndromeLookupDecoder(E.HammingCodeEncoder(3)), recv_pool(ham), dense=ball(ham, 2)))
    C.append(Comp("BruteForceMLDecoder/Hamming(7,4)", "BruteForceMLDecoder", lambda: D.BruteForceMLDecoder(E.HammingCodeEncoder(3)), recv_pool(ham), dense=ball(ham, 2)))
    # long words that agree in their first positions and differ only in the tail, on both sides of a decision boundary (a decoder that keys or
    # packs a word into a limited-precision number sees them as equal)

    def tail_twins(n, head_weight, tail=7, base=None):
        """Pools of words that agree everywhere except in their last (or, mirrored, their first) `tail` positions: members that a
        lossy key (a word packed into a float, high or low end first) cannot tell apart."""
        def f():
            out = []
            for _ in range(2):
                if base is not None:
                    b = [float(v) for v in base()]
                else:
                    b = [1.0] * head_weight + [0.0] * (n - tail - head_weight)
                    rng.shuffle(b)
                    b = b + [0.0] * tail
                for v in rng.sample(range(1 << tail), 40):
                    out.append(torch.tensor(b[:n - tail] + [float((v >> j) & 1) for j in range(tail)]))
                out.append(torch.tensor(b[:n - tail] + [0.0] * tail))
                # mirrored: equal tails (with a one in the last position), different first positions
                m = list(b[tail:n - 1]) + [1.0]
                for v in rng.sample(range(1 << tail), 40):
                    out.append(torch.tensor([float((v >> j) & 1) for j in range(tail)] + m))
            return out
        return f
    # the encoders' own correcting inverses on received words with errors (not only on codewords), through both public methods
    first = (lambda r: r[0] if isinstance(r, tuple) else r)
    C.append(Comp("HammingCodeEncoder.inverse_encode(received)", "HammingCodeEncoder", lambda: E.HammingCodeEncoder(3), recv_pool(ham, (0, 1, 1)), call=lambda o, x: first(o.inverse_encode(x)), dense=ball(ham, 1)))
    C.append(Comp("HammingCodeEncoder.extract_message(received)", "HammingCodeEncoder", lambda: E.HammingCodeEncoder(3, extended=True), recv_pool(E.HammingCodeEncoder(3, extended=True), (0, 1, 1)),
                  call=lambda o, x: first(o.extract_message(x))))
    rm13 = E.ReedMullerCodeEncoder(1, 3)
    C.append(Comp("ReedMullerCodeEncoder.inverse_encode(received)", "ReedMullerCodeEncoder", lambda: E.ReedMullerCodeEncoder(1, 3), recv_pool(rm13, (0, 1, 1)), call=lambda o, x: first(o.inverse_encode(x))))
    rep31 = E.RepetitionCodeEncoder(31)
    C.append(Comp("BruteForceMLDecoder/Repetition(31)", "BruteForceMLDecoder", lambda: D.BruteForceMLDecoder(E.RepetitionCodeEncoder(31)), recv_pool(rep31), dense=tail_twins(31, 15)))
    rm15 = E.ReedMullerCodeEncoder(1, 5)
    C.append(Comp("BruteForceMLDecoder/RM(1,5)", "BruteForceMLDecoder", lambda: D.BruteForceMLDecoder(E.ReedMullerCodeEncoder(1, 5)), recv_pool(rm15), dense=tail_twins(32, 12)))
    bch31 = E.BCHCodeEncoder(5, 5)

    def near_codeword31():
        c = bch31(torch.tensor([[float(rng.randrange(2)) for _ in range(21)]]))[0].tolist()
        for j in rng.sample(range(7, 24), rng.randint(0, 2)):
            c[j] = 1.0 - c[j]
        return c
    C.append(Comp("BerlekampMasseyDecoder/BCH(31,21)", "BerlekampMasseyDecoder", lambda: D.BerlekampMasseyDecoder(E.BCHCodeEncoder(5, 5)), recv_pool(bch31),
                  dense=tail_twins(31, 0, base=near_codeword31)))
    C.append(Comp("BerlekampMasseyDecoder/BCH(15,7)", "BerlekampMasseyDecoder", lambda: D.BerlekampMasseyDecoder(E.BCHCodeEncoder(4, 5)), recv_pool(bch), dense=ball(bch, 2)))
    C.append(Comp("SyndromeLookupDecoder/BCH(15,7)", "SyndromeLookupDecoder", lambda: D.SyndromeLookupDecoder(E.BCHCodeEncoder(4, 5)), recv_pool(bch), dense=ball(bch, 2)))
    C.append(Comp("ReedMullerDecoder(hard)/RM(1,3)", "ReedMullerDecoder", lambda: D.ReedMullerDecoder(E.ReedMullerCodeEncoder(1, 3)), recv_pool(E.ReedMullerCodeEncoder(1, 3))))
    # soft decoders: members are LLR vectors

    def llr_pool(n):
        return [torch.tensor([rng.choice([-1.0, 1.0]) * rng.randint(1, 9) for _ in range(n)]) for _ in range(3)] + [torch.tensor([1.0 + j for j in range(n)])]
    C.append(Comp("WagnerSoftDecisionDecoder/SPC(4)", "WagnerSoftDecisionDecoder", lambda: D.WagnerSoftDecisionDecoder(E.SingleParityCheckCodeEncoder(4)), llr_pool(5), dense=signs(5)))
    C.append(Comp("BeliefPropagationDecoder/LDPC(3x6)", "BeliefPropagationDecoder", lambda: D.BeliefPropagationDecoder(E.LDPCCodeEncoder(check_matrix=H6), bp_iters=4), llr_pool(6), dense=signs(6)))
    C.append(Comp("MinSumLDPCDecoder/LDPC(3x6)", "MinSumLDPCDecoder", lambda: D.MinSumLDPCDecoder(E.LDPCCodeEncoder(check_matrix=H6), bp_iters=4), llr_pool(6), dense=signs(6)))
    C.append(Comp("BeliefPropagationDecoder(soft)/Hamming(7,4)", "BeliefPropagationDecoder", lambda: D.BeliefPropagationDecoder(E.HammingCodeEncoder(3), bp_iters=10),
                  llr_pool(7) + [torch.tensor([0.5, -1.5, -2.0, 2.5, 2.0, -1.0, -1.5])], call=lambda o, x: o(x, return_soft=True)[1]))
    C.append(Comp("MinSumLDPCDecoder(soft)/LDPC(3x6)", "MinSumLDPCDecoder", lambda: D.MinSumLDPCDecoder(E.LDPCCodeEncoder(check_matrix=H6), bp_iters=6), llr_pool(6),
                  call=lambda o, x: o(x, return_soft=True)[1]))
    C.append(Comp("SuccessiveCancellationDecoder/Polar(8,4)", "SuccessiveCancellationDecoder", lambda: D.SuccessiveCancellationDecoder(quiet(E.PolarCodeEncoder, 4, 8)), llr_pool(8), three_d=False, dense=signs(8)))
    C.append(Comp("BeliefPropagationPolarDecoder/Polar(8,4)", "BeliefPropagationPolarDecoder",
                  lambda: quiet(D.BeliefPropagationPolarDecoder, quiet(E.PolarCodeEncoder, 4, 8, frozen_zeros=True)), llr_pool(8), three_d=False))
    # memoryless modems: members are bit groups (modulators) / received symbols (demodulators)
    for nm, mod, dem, b in (("QPSK", lambda: M.QPSKModulator(), lambda: M.QPSKDemodulator(), 2), ("PSK8", lambda: M.PSKModulator(order=8), lambda: M.PSKDemodulator(order=8), 3),
                            ("QAM16", lambda: M.QAMModulator(order=16), lambda: M.QAMDemodulator(order=16), 4), ("PAM4", lambda: M.PAMModulator(order=4), lambda: M.PAMDemodulator(order=4), 2),
                            ("BPSK", lambda: M.BPSKModulator(), lambda: M.BPSKDemodulator(), 1),
                            # documented options and construction forms: real-valued BPSK, unnormalised / binary-labelled tables, registry names
                            ("BPSK(complex_output=False)", lambda: M.BPSKModulator(complex_output=False), lambda: M.BPSKDemodulator(), 1),
                            ("BPSK(registry,complex_output=False)", lambda: M.ModulationRegistry.create_modulator("bpskmodulator", complex_output=False),
                             lambda: M.ModulationRegistry.create_demodulator("bpskdemodulator"), 1),
                            ("QAM16(binary,unnormalised)", lambda: M.QAMModulator(16, False, False), lambda: M.QAMDemodulator(16, False, False), 4),
                            ("PAM8(unnormalised)", lambda: M.PAMModulator(order=8, normalize=False), lambda: M.PAMDemodulator(order=8, normalize=False), 3)):
        C.append(Comp(nm + "Modulator", nm + "Modulator", mod, [bitsv(v, b) for v in ([0, 1] if b == 1 else [0, 1, (1 << b) - 1, 2])], three_d=False))
        syms = [torch.tensor([complex(rng.uniform(-1.2, 1.2), rng.uniform(-1.2, 1.2))], dtype=torch.complex64) for _ in range(4)]
        C.append(Comp(nm + "Demodulator(hard)", nm + "Demodulator", dem, syms, three_d=False))
        C.append(Comp(nm + "Demodulator(soft)", nm + "Demodulator", dem, syms, call=lambda o, x: o(x, 0.5), three_d=False))
    # per-item constraints: members are items (rows); the zero signal and a constant signal take their own code paths
    items = [torch.zeros(8), torch.ones(8) * 0.3, torch.tensor([rng.gauss(0, 1) for _ in range(8)]), torch.tensor([5.0, 0, 0, 0, 0, 0, 0, -0.1])]
    citems = [torch.complex(a, a.flip(0)) for a in items]
    for nm, mk in (("TotalPowerConstraint", lambda: K.TotalPowerConstraint(1.0)), ("AveragePowerConstraint", lambda: K.AveragePowerConstraint(0.5)),
                   ("PAPRConstraint", lambda: K.PAPRConstraint(max_papr=3.0))):
        C.append(Comp(nm + "(real)", nm, mk, items, blocks=False, three_d=False))
        C.append(Comp(nm + "(complex)", nm, mk, citems, blocks=False, three_d=False))
    return C


class Ids:
    def __init__(self):
        self.vals = []

    def get(self, t):
        t = t.detach().reshape(-1)
        t = torch.view_as_real(t).reshape(-1).double() if t.is_complex() else t.double()
        for i, v in enumerate(self.vals):
            if v.shape == t.shape and torch.allclose(v, t, rtol=1e-5, atol=1e-6, equal_nan=True):
                return i + 1
        self.vals.append(t.clone())
        return len(self.vals)


_HELD = {}
_FORM = [0]


def do_call(comp, obj, members, layout, pool, ids):
    """One recorded call. Returns event fields."""
    rows = [pool[m - 1] for m in members]
    if layout == "rows":
        X = torch.stack(rows)
    elif layout == "blocks":
        X = torch.cat(rows).unsqueeze(0)
    elif layout == "single":
        X = rows[0].unsqueeze(0) if comp.name.startswith("Polar") or "Polar" in comp.name or "Demodulator" in comp.name or "Modulator" in comp.name else rows[0]
    else:  # 3-D
        X = torch.stack(rows).unsqueeze(0)
    # the input tensor's form in turn: contiguous, a non-contiguous strided view of a larger buffer, a leaf that requires grad, a dense transposed view
    _FORM[0] += 1
    form = ("contiguous", "strided view", "requires_grad", "transposed view")[_FORM[0] % 4]
    if form == "strided view":
        from .core import noncontiguous
        X = noncontiguous(X)
    elif form == "transposed view":
        from .core import transposed_view
        X = transposed_view(X)
    elif form == "requires_grad" and (X.is_floating_point() or X.is_complex()):
        X = X.clone().requires_grad_(True)
    before = X.detach().clone()
    ev = {"members": list(members), "layout": layout, "results": [], "raised": False, "input_unchanged": True, "earlier_result_unchanged": True, "error": "", "input_form": form}
    held = _HELD.get(id(obj))          # the tensor this object returned last time, and what it held then
    try:
        try:
            Y = comp.call(obj, X)
        except Exception:
            if layout != "single" or X.dim() != 1:
                raise
            X = X.detach().unsqueeze(0)     # a component may reject 1-D input; a single sample is then a batch of one
            before = X.clone()
            Y = comp.call(obj, X)
        if held is not None and held[0] is obj:
            ev["earlier_result_unchanged"] = bool(held[1].shape == held[2].shape and torch.equal(torch.nan_to_num(torch.view_as_real(held[1]) if held[1].is_complex() else held[1].double() if held[1].is_floating_point() else held[1]),
                                                                                              torch.nan_to_num(torch.view_as_real(held[2]) if held[2].is_complex() else held[2].double() if held[2].is_floating_point() else held[2])))
        if torch.is_tensor(Y):
            _HELD[id(obj)] = (obj, Y, Y.detach().clone())
        Y = Y.reshape(len(members), -1)
        ev["results"] = [ids.get(Y[i]) for i in range(len(members))]
    except Exception as ex:
        ev["raised"] = True
        ev["error"] = repr(ex)[:100]
    X = X.detach()
    same = before.shape == X.shape and (torch.equal(before, X) if not before.is_floating_point() and not before.is_complex() else torch.equal(torch.nan_to_num(torch.view_as_real(before) if before.is_complex() else before), torch.nan_to_num(torch.view_as_real(X) if X.is_complex() else X)))
    ev["input_unchanged"] = bool(same)
    return ev


def run(run):
    rng = random.Random(run.seed)
    quick = run.tier == "quick"
    run.rule = ("components x call histories exported by TLC (two calls, batches of 1..3 pool members in every order with repetition, rows / concatenated-blocks "
                "layouts), replayed on two interleaved objects, plus 3-D layouts; non-trivial = batch of at least two members; distinct by (component, history)")

    def cfg(design, export):
        return ("CONSTANTS Pool = {1,2,3,4}\nMaxBatch = 3\nMaxCalls = 2\nDesign = \"%s\"\nExport = %s\nSPECIFICATION Spec\nCHECK_DEADLOCK FALSE\nINVARIANT FunctionalConsistency\n%s"
                % (design, "TRUE" if export else "FALSE", "INVARIANT ExportInv\n" if export else ""))
    r = tlc.run("MC_Purity", cfg("pure", False), workers=8, timeout=600)
    if not r.ok:
        raise tlc.TLCFailure("MC_Purity: %s %s" % (r.errors, r.violated))
    run.add_tlc("MC_Purity pure design", r)
    for d in ("position", "stale_cache"):
        rr = tlc.run("MC_Purity", cfg(d, False), workers=4, timeout=600)
        if "FunctionalConsistency" not in rr.violated:
            raise tlc.TLCFailure("vacuity guard: impure design %s not rejected" % d)
    run.extra["vacuity_guard"] = "designs 'position' and 'stale_cache' violate FunctionalConsistency"
    r = tlc.run("MC_Purity", cfg("pure", True), workers=1, timeout=900)
    if not r.ok:
        raise tlc.TLCFailure("MC_Purity export: %s" % r.errors)
    run.add_tlc("GEN call histories", r, kind="gen")
    hists = [h[1] for h in r.tuples("CALLS")]
    if len(hists) != (4 + 16 + 64) ** 2 * 4:
        raise tlc.TLCFailure("export incomplete: %d histories" % len(hists))
    comps = components(rng, quick)
    if run.only:
        comps = [c for c in comps if c.name == run.only.get("config", {}).get("component_name")]
    evs, meta = [], []
    tid = 0
    per = 60 if quick else 1200
    for comp in comps:
        try:
            o1, o2 = comp.mk(), comp.mk()
            pool = comp.pool
            if pool == "codewords":
                k = int(o1.code_dimension)
                pool = [o1(torch.tensor([[(v >> j) & 1 for j in range(k)]], dtype=torch.float32))[0] for v in (0, (1 << k) - 1, 1, rng.randrange(1 << k))]
        except Exception as ex:
            run.violate(comp.cls, "construction_raised", {"component_name": comp.name}, {"error": repr(ex)[:200]})
            continue
        ids = Ids()
        tid += 1
        evs.append({"ev": "Component", "tid": tid, "name": comp.name, "pool": len(pool)})
        meta.append((comp, None))

        def emit(e, may_reject):
            nonlocal tid
            tid += 1
            e.update({"ev": "Call", "tid": tid, "may_reject": may_reject})
            evs.append(e)
            meta.append((comp, e))
        for m in range(1, len(pool) + 1):       # single-sample calls on a fresh object define R
            emit(do_call(comp, comp.mk(), [m], "single", pool, ids), False)
        sel = rng.sample(hists, per)
        for hi, h in enumerate(sel):
            objs = (o1, o2) if hi % 2 == 0 else (o2, o1)
            for ci, (batch, lay) in enumerate(h):
                batch = [b for b in batch if b <= len(pool)] or [1]
                if lay == "blocks" and not comp.blocks:
                    lay = "rows"
                emit(do_call(comp, objs[ci % 2] if hi % 3 == 0 else objs[0], batch, lay, pool, ids), True)
                run.case((comp.name, tuple(batch), lay, ci, hi % 3 == 0), nontrivial=len(batch) >= 2)
            if comp.three_d and hi % 10 == 0:
                emit(do_call(comp, objs[0], [b for b in h[0][0] if b <= len(pool)] or [1], "3d", pool, ids), True)
    # dense pools: many structured neighbours (all low-weight error patterns around a codeword, all sign patterns, all messages), paired at random in
    # one batch and fed one at a time to a long-lived object - a result that depends on part of the input only (a cache keyed on a partial
    # syndrome, a shared early stop) shows when two neighbours that agree on that part meet
    npairs, nseq = (250, 150) if quick else (3000, 1500)
    for comp in comps:
        if comp.dense is None:
            continue
        try:
            pool = comp.dense()
            o1 = comp.mk()
        except Exception as ex:
            run.violate(comp.cls, "construction_raised", {"component_name": comp.name}, {"error": repr(ex)[:200]})
            continue
        dcomp = Comp(comp.name + "/dense", comp.cls, comp.mk, pool, call=comp.call, blocks=comp.blocks, three_d=comp.three_d)
        ids = Ids()
        tid += 1
        evs.append({"ev": "Component", "tid": tid, "name": dcomp.name, "pool": len(pool)})
        meta.append((dcomp, None))

        def emit2(e, may_reject):
            nonlocal tid
            tid += 1
            e.update({"ev": "Call", "tid": tid, "may_reject": may_reject})
            evs.append(e)
            meta.append((dcomp, e))
        fresh = comp.mk()
        for m in range(1, len(pool) + 1):
            emit2(do_call(dcomp, comp.mk() if m % 16 == 1 else fresh, [m], "single", pool, ids), False)       # references from (nearly) fresh objects
            if m % 16 == 1:
                fresh = comp.mk()
        for j in range(npairs):
            a, b = rng.randrange(1, len(pool) + 1), rng.randrange(1, len(pool) + 1)
            lay = "blocks" if (comp.blocks and j % 3 == 2) else "rows"
            emit2(do_call(dcomp, o1, [a, b], lay, pool, ids), True)
            run.case((dcomp.name, a, b, lay), nontrivial=a != b)
        for j in range(nseq):
            a = rng.randrange(1, len(pool) + 1)
            emit2(do_call(dcomp, o1, [a], "rows", pool, ids), True)
            run.case((dcomp.name, "seq", j, a), nontrivial=True)
    run.log("%d components, %d events" % (len(comps), len(evs)))
    mism = tv.validate_sharded(run, "Trace_Purity", evs, (lambda e: e["ev"] == "Component"), name="TV C20", max_events=100000, jobs=8)
    rejected = {}
    for (comp, e) in meta:
        if e and e["raised"]:
            rejected.setdefault(comp.name, set()).add(e["layout"])
    run.extra["layouts_rejected_with_an_error"] = {k: sorted(v) for k, v in rejected.items()}
    seen = set()
    for (t, line, clause) in mism:
        comp, e = meta[line - 1]
        key = (comp.name, clause, e["layout"] if e else "")
        if key in seen:
            continue
        seen.add(key)
        run.violate(comp.cls, clause, {"component_name": comp.name, "layout": e["layout"] if e else ""}, {k: v for k, v in (e or {}).items()},
                    "Call rejected by Trace_Purity clause %s" % clause)
    run.sample({"component": meta[5][0].name, "event": evs[5]})
    run.sample({"component": meta[len(evs) // 2][0].name, "event": evs[len(evs) // 2]})
    if not run.only and not [m for m in mism if m[1] <= 40]:        # the self-test slice (the first 40 events) was accepted
        def corrupt(ev2):
            i = next(i for i, e in enumerate(ev2) if e["ev"] == "Call" and e["layout"] != "single" and len(e["results"]) >= 2)
            ev2[i]["results"] = [ev2[i]["results"][0] + 50] + ev2[i]["results"][1:]
            return i + 1
        ok, msg = tv.selftest_binding("Trace_Purity", evs[:40], corrupt, "result_depends_on_the_member_only")
        if not ok:
            raise tlc.TLCFailure("binding self-test failed: " + msg)
        run.extra["binding_selftest"] = "changing one result id of a batched call is rejected at that line"
    run.assumptions += ["results are compared up to rtol 1e-5 / atol 1e-6 (result ids are equivalence classes); a call may raise instead of answering"]
