"""X09 (extended coverage, not a listed property) - benchmarks.ParallelRunner follows ParallelPool.tla with completion-order hand-over.

MC : MC_ParallelPool with HandOver = "insertion" (the design ParallelRunner implements: the result list is the collection order), N <= 4,
     every pool size: TypeOK, MappingPairsOwnResult, NoLostBranch, and Terminates under weak fairness.
GEN: every finish order TLC exports for (N, W) is imposed on a real ParallelRunner by gating the benchmarks' run() (one released at a time);
     the returned list, the per-benchmark execution counts, the identity each result carries and the accumulation of runner.results over
     two calls are logged as PoolRun events and judged by Trace_Pipelines.
"""
import threading

from . import tlc, tv

LEVEL = "model_checking"


def pool_cfg(n, w, export):
    return """CONSTANTS N = %d
W = %d
HandOver = "insertion"
Export = %s
SPECIFICATION Spec
CHECK_DEADLOCK FALSE
INVARIANT TypeOK
INVARIANT MappingPairsOwnResult
INVARIANT NoLostBranch
%s
""" % (n, w, "TRUE" if export else "FALSE", "INVARIANT ExportInv" if export else "PROPERTY Terminates")


def _wait_collected(thread, count, timeout=10.0):
    """Block until the runner thread's run_benchmarks frame holds `count` collected results (read from the frame's locals): the schedule TLC chose
    fixes the order of completion, and this makes the order of collection follow it whatever the machine's load."""
    import sys
    import time
    t_end = time.time() + timeout
    while time.time() < t_end:
        if not thread.is_alive():
            return True                      # the call has returned: everything was collected
        f = sys._current_frames().get(thread.ident)
        while f is not None and f.f_code.co_name != "run_benchmarks":
            f = f.f_back
        if f is not None:
            res = f.f_locals.get("results")
            if isinstance(res, list) and len(res) >= count:
                return True
        time.sleep(0.001)
    return False


def gated_run(n, w, finish):
    from kaira.benchmarks.base import BaseBenchmark
    from kaira.benchmarks.runners import ParallelRunner
    started = [threading.Event() for _ in range(n + 1)]
    gate = [threading.Event() for _ in range(n + 1)]
    done = [threading.Event() for _ in range(n + 1)]
    counts = [0] * (n + 1)

    class B(BaseBenchmark):
        def __init__(self, i):
            super().__init__("bench%d" % i, "gated")
            self.i = i

        def setup(self, **kw):
            super().setup(**kw)

        def run(self, **kw):
            counts[self.i] += 1
            started[self.i].set()
            if not gate[self.i].wait(20):
                raise RuntimeError("gate timeout")
            done[self.i].set()
            return {"token": self.i, "success": True}

    benches = [B(i) for i in range(1, n + 1)]
    runner = ParallelRunner(max_workers=w, verbose=False)
    box = {}

    def main():
        try:
            box["out"] = runner.run_benchmarks(benches)
        except BaseException as e:  # noqa
            box["exc"] = e
    t = threading.Thread(target=main)
    t.start()
    released = 0
    try:
        for b in finish:
            if not started[b].wait(20):
                raise tlc.TLCFailure("gated replay: benchmark %d never started (n=%d w=%s finish=%s)" % (b, n, w, finish))
            gate[b].set()
            done[b].wait(20)
            released += 1
            _wait_collected(t, released)      # the next benchmark is released only when the runner has collected this one
    finally:
        for g in gate:
            g.set()
        t.join(30)
    if "exc" in box:
        raise box["exc"]
    out = box["out"]
    by_id = {b.id: b.i for b in benches}
    results = [by_id.get(r.benchmark_id, -1) for r in out]
    own = [bool(r.metrics.get("token") == by_id.get(r.benchmark_id) and r.name == "bench%d" % by_id.get(r.benchmark_id, -1)) for r in out]
    first = list(runner.results)
    # a second call on the same runner (no gating: everything released) must append its results after the first call's
    for b in benches:
        b._setup_called = b._teardown_called = False
    out2 = runner.run_benchmarks(benches)
    acc = len(runner.results) == len(first) + len(out2) and runner.results[:len(first)] == first and runner.results[len(first):] == out2
    return results, own, counts[1:], acc, [c for c in counts[1:]]


def run(run):
    quick = run.tier == "quick"
    maxn = 3 if quick else 4
    run.rule = "one gated run per (N, W, finish order) exported by TLC; non-trivial = N >= 2; distinct by (N, W, finish order)"
    evs, tid, keys = [], 0, {}
    for n in range(1, maxn + 1):
        for w in range(1, n + 1):
            r = tlc.run("MC_ParallelPool", pool_cfg(n, w, False), workers=8, timeout=600)
            if not r.ok:
                raise tlc.TLCFailure("ParallelPool(insertion) N=%d W=%d: %s %s" % (n, w, r.errors, r.violated))
            run.add_tlc("MC_ParallelPool insertion N=%d W=%d" % (n, w), r)
            g = tlc.run("MC_ParallelPool", pool_cfg(n, w, True), workers=1, timeout=900)
            if not g.ok:
                raise tlc.TLCFailure("ParallelPool export N=%d W=%d: %s" % (n, w, g.errors))
            run.add_tlc("GEN ParallelPool insertion N=%d W=%d" % (n, w), g, kind="gen")
            fins = sorted({tuple(s[3]) for s in g.tuples("SCHED")})
            if not fins:
                raise tlc.TLCFailure("no schedules exported")
            for fin in fins:
                results, own, counts, acc, _ = gated_run(n, w, fin)
                tid += 1
                keys[tid] = {"n": n, "w": w, "finish": list(fin)}
                # the second (ungated) call executes every benchmark once more: counts are 2 after both calls
                evs.append({"ev": "PoolRun", "tid": tid, "N": n, "finish": list(fin), "results": results, "own": own,
                            "executed": [c - 1 for c in counts], "accumulated": acc})
                run.case((n, w, fin), nontrivial=n >= 2)
    run.log("%d gated schedule replays on the real ParallelRunner" % len(evs))
    mism = tv.validate(run, "Trace_Pipelines", evs, name="TV X09", count_trace=False)
    run.traces += len(evs)
    seen = set()
    for (t, line, clause) in mism:
        if clause in seen:
            continue
        seen.add(clause)
        run.violate("ParallelRunner", clause, {"N": keys[t]["n"], "W": keys[t]["w"]}, {"schedule": keys[t], "observed": evs[line - 1]},
                    "PoolRun rejected by Trace_Pipelines clause %s" % clause)
    run.sample({"schedule": keys[min(tid, 5)], "event": evs[min(tid, 5) - 1]})
    if not mism:
        def corrupt(ev2):
            i = next(i for i, e in enumerate(ev2) if e["N"] >= 2)
            ev2[i]["results"] = list(reversed(ev2[i]["results"]))
            return i + 1
        ok, msg = tv.selftest_binding("Trace_Pipelines", evs, corrupt, "results_listed_in_completion_order")
        if not ok:
            raise tlc.TLCFailure("binding self-test failed: " + msg)
        run.extra["binding_selftest"] = "reversing one logged result list is rejected at that line"
    run.assumptions += ["trusts CPython's ThreadPoolExecutor FIFO start order; gating releases one benchmark at a time, so the collection order is the finish order"]
    run.exhaustive = True
