"""C08 - power, amplitude and PAPR constraints enforce their limit on every batch item.

MC  : MC_Constraints - the composition law on a model domain (fold is left-to-right, a composite of composites equals the flat fold, order matters).
TV  : sensor events per (constraint, target, real/complex, shape, signal family, scale): the harness measures item by item (power, element-wise output/
      input ratio, idempotence, rescale invariance, peak, PAPR, fraction of samples within 20 dB of the peak) in ppm of the configured limit; the
      contracts (never more than target; equal within 0.1 % for non-negligible input; positive real factor; every sample within the peak limit; PAPR
      within the limit on non-sparse signals) are operators of Constraints.tla evaluated by TLC. Composite events carry the recorded stage order
      (forward hooks) and the deviation from sequential application; Factory events measure all limits of the OFDM / MIMO composites on the final output.
"""
import math
import random

import torch
from .core import sint

from . import tlc, tv

LEVEL = "other"


def families(rng, n, cplx):
    def mk(real):
        return torch.complex(real(), real()) / math.sqrt(2) if cplx else real()
    out = {}
    out["gaussian"] = mk(lambda: torch.randn(n))
    out["uniform"] = mk(lambda: torch.rand(n) * 2 - 1)
    out["ofdm"] = torch.fft.ifft(torch.complex(torch.sign(torch.randn(n)), torch.sign(torch.randn(n)))) * math.sqrt(n) if cplx else \
        torch.fft.ifft(torch.complex(torch.sign(torch.randn(n)), torch.sign(torch.randn(n)))).real * math.sqrt(n)
    out["heavy"] = mk(lambda: torch.randn(n) ** 3)
    out["squared"] = mk(lambda: (lambda g: g * g.abs())(torch.randn(n)))      # heavier tails than Gaussian, yet non-sparse
    out["ramp4"] = mk(lambda: ((torch.arange(1, n + 1, dtype=torch.float32) / n) ** 4) * torch.tensor([(-1.0) ** i for i in range(n)]))   # deterministic, 44% within 20 dB of the peak
    out["constant"] = mk(lambda: torch.ones(n) * 0.7)
    out["alternating"] = mk(lambda: torch.tensor([(-1.0) ** i for i in range(n)]))
    return out


def items_of(x):
    """Batch items as the per-item constraints see them: rows when there is a batch dimension of size > 1, else the whole tensor."""
    if x.dim() > 1 and x.shape[0] > 1:
        return [x[b] for b in range(x.shape[0])]
    return [x]


def pw(t, total):
    v = (t.abs() ** 2).double()
    return float(v.sum()) if total else float(v.mean())


_N = [0]


def run(run):
    rng = random.Random(run.seed)
    torch.manual_seed(run.seed)
    quick = run.tier == "quick"
    run.rule = ("(constraint, target, real/complex, shape, signal family, input scale) x batch items; non-trivial = non-zero input item; distinct by configuration and item")
    r = tlc.run("MC_Constraints", "SPECIFICATION Spec\nCHECK_DEADLOCK FALSE\nINVARIANT FoldLaw\nINVARIANT OrderMatters\n", workers=8, timeout=600)
    if not r.ok:
        raise tlc.TLCFailure("MC_Constraints: %s %s" % (r.errors, r.violated))
    run.add_tlc("MC_Constraints", r)
    from kaira import constraints as K
    from kaira.constraints.utils import create_mimo_constraints, create_ofdm_constraints
    evs, meta = [], []
    tid = 0

    def add(e, comp, cfg):
        nonlocal tid
        tid += 1
        e["tid"] = tid
        evs.append(e)
        meta.append((comp, cfg))
    shapes = [(64,), (1, 64), (4, 64), (3, 4, 16), (2, 2, 4, 8)]
    scales = [1e-2, 1.0, 1e4] if quick else [1e-2, 0.3, 1.0, 30.0, 1e4]
    targets = [0.5, 1.0, 25.0] if quick else [1e-2, 0.5, 1.0, 25.0, 1e3]
    # ---------------------------------------------------------------- total / average power
    for cname, mk, total in (("TotalPowerConstraint", lambda t: K.TotalPowerConstraint(t), True), ("AveragePowerConstraint", lambda t: K.AveragePowerConstraint(t), False)):
        ci = 0
        for target_obj in list(targets) + [2, torch.tensor(4.0)]:          # the limit as float, Python int and tensor
            target = float(target_obj)
            for cplx in (False, True):
                for shape in shapes:
                    n = 1
                    for d in shape:
                        n *= d
                    fams = families(rng, n, cplx)
                    for fname, base in fams.items():
                        ci += 1
                        if quick and ci % 3 != 0:
                            continue
                        sc = scales[(ci // 3) % len(scales)] if quick else scales[ci % len(scales)]      # (quick keeps every third case: ci % 3 would always pick the first scale)
                        x = (base * sc).reshape(shape)
                        if x.dim() > 1 and x.shape[0] > 1:
                            x = x.clone()
                            x[0] = x[0] * 100.0        # items of very different power in one batch
                            if ci % 4 == 0:
                                x[-1] = 0          # a zero item takes its own code path
                        cfg = {"constraint": cname, "target": target, "complex": cplx, "ndim": len(shape), "batch": shape[0] if len(shape) > 1 else 0, "family": fname, "scale": sc}
                        if not isinstance(target_obj, float):
                            cfg["target_type"] = type(target_obj).__name__
                        c = mk(target_obj)
                        _N[0] += 1
                        if _N[0] % 3 == 1:
                            from .core import noncontiguous
                            x = noncontiguous(x)          # every third case: the signal arrives as a non-contiguous strided view
                            cfg["input_form"] = "strided view"
                        elif _N[0] % 3 == 2:
                            c.eval()
                            cfg["mode"] = "eval"
                        try:
                            y = c(x)
                            y2 = c(y)
                            yr = c(x * 3.7)
                            raised = False
                        except Exception as ex:
                            add({"ev": "Power", "raised": True, "error": repr(ex)[:100]}, cname, cfg)
                            continue
                        shape_ok = tuple(y.shape) == tuple(x.shape) and y.dtype == x.dtype
                        for b, (xi, yi, y2i, yri) in enumerate(zip(items_of(x), items_of(y) if shape_ok else items_of(x), items_of(y2) if shape_ok else items_of(x), items_of(yr) if shape_ok else items_of(x))):
                            pin = pw(xi, True)
                            zero = pin == 0.0
                            negl = pin < 1e-3
                            pout = pw(yi, total)
                            nzmask = xi.abs() > (xi.abs().max() * 1e-3 if not zero else 1)
                            if not zero and bool(nzmask.any()):
                                ratio = (yi[nzmask] / xi[nzmask]).to(torch.complex128)
                                mean = complex(ratio.mean())
                                spread = float((ratio - mean).abs().max() / max(abs(mean), 1e-300))
                                positive = abs(mean.imag) <= 1e-5 * abs(mean) and mean.real > 0
                            else:
                                spread, positive = 0.0, True
                            rms = math.sqrt(max(pw(yi, False), 1e-300))
                            e = {"ev": "Power", "raised": False, "power_ppm": sint(min(pout / target, 2000.0) * 1e6), "zero_input": zero, "negligible": negl,
                                 "spread_ppm": sint(min(spread, 1.0) * 1e6), "positive": bool(positive),
                                 "idem_ppm": sint(min(float((y2i - yi).abs().max()) / rms, 1.0) * 1e6),
                                 "rescale_ppm": sint(min(float((yri - yi).abs().max()) / rms, 1.0) * 1e6), "shape_ok": shape_ok}
                            add(e, cname, dict(cfg, item=b))
                            run.case((cname, target, cplx, shape, fname, sc, b), nontrivial=not zero)
    # ---------------------------------------------------------------- per-antenna power
    for cplx in (False, True):
        for shape in ((3, 4, 32), (2, 4, 8, 8)):
            for uniform in (True, False):
                n = 1
                for d in shape:
                    n *= d
                x = families(rng, n, cplx)["gaussian"].reshape(shape) * 5.0
                x[:, 1] = x[:, 1] * 50
                budget = torch.tensor([0.5, 1.0, 2.0, 4.0])
                c = K.PerAntennaPowerConstraint(uniform_power=1.5) if uniform else K.PerAntennaPowerConstraint(power_budget=budget)
                cfg = {"constraint": "PerAntennaPowerConstraint", "complex": cplx, "ndim": len(shape), "uniform": uniform}
                try:
                    y = c(x)
                    y2 = c(y)
                    yr = c(x * 0.01)
                except Exception as ex:
                    add({"ev": "Power", "raised": True, "error": repr(ex)[:100]}, "PerAntennaPowerConstraint", cfg)
                    continue
                for b in range(shape[0]):
                    for a in range(shape[1]):
                        tgt = 1.5 if uniform else float(budget[a])
                        xi, yi = x[b, a], y[b, a]
                        ratio = (yi / xi).to(torch.complex128).reshape(-1)
                        mean = complex(ratio.mean())
                        rms = math.sqrt(pw(yi, False))
                        add({"ev": "Power", "raised": False, "power_ppm": sint(pw(yi, False) / tgt * 1e6), "zero_input": False, "negligible": False,
                             "spread_ppm": sint(float((ratio - mean).abs().max() / abs(mean)) * 1e6), "positive": abs(mean.imag) <= 1e-5 * abs(mean) and mean.real > 0,
                             "idem_ppm": sint(float((y2[b, a] - yi).abs().max()) / rms * 1e6), "rescale_ppm": sint(float((yr[b, a] - yi).abs().max()) / rms * 1e6),
                             "shape_ok": tuple(y.shape) == tuple(x.shape)}, "PerAntennaPowerConstraint", dict(cfg, item=b, antenna=a))
                        run.case(("perantenna", cplx, shape, uniform, b, a), nontrivial=True)
    # ---------------------------------------------------------------- peak amplitude and PAPR
    for cplx in (False, True):
        for shape in shapes:
            n = 1
            for d in shape:
                n *= d
            fams = families(rng, n, cplx)
            for fname in ("gaussian", "uniform", "ofdm", "heavy", "squared", "ramp4", "alternating"):
                x = (fams[fname] * rng.choice(scales)).reshape(shape)
                if fname == "ramp4" and len(shape) > 1 and shape[0] > 1:      # one full ramp per batch item
                    x = (torch.stack([families(rng, n // shape[0], cplx)["ramp4"] for _ in range(shape[0])]) * rng.choice(scales)).reshape(shape)
                for lim in (0.05, 1.0, 30.0, 2):
                    cfg = {"constraint": "PeakAmplitudeConstraint", "complex": cplx, "ndim": len(shape), "family": fname, "limit": lim}
                    try:
                        xin = x
                        if (len(shape) + int(cplx) + (1 if lim < 1 else 0)) % 2 == 0:
                            xin = x.clone().requires_grad_(True)      # every other case: the signal is tracked by autograd (the output of a trainable encoder)
                            cfg["input_form"] = "requires_grad"
                        y = K.PeakAmplitudeConstraint(lim)(xin).detach()
                        add({"ev": "Peak", "raised": False, "peak_ppm": sint(min(float(y.abs().max()) / lim, 2000.0) * 1e6), "shape_ok": tuple(y.shape) == tuple(x.shape)}, "PeakAmplitudeConstraint", cfg)
                    except Exception as ex:
                        add({"ev": "Peak", "raised": True, "error": repr(ex)[:100]}, "PeakAmplitudeConstraint", cfg)
                    run.case(("peak", cplx, shape, fname, lim), nontrivial=True)
                for lim in (((1.2, 2.0, 4.0) if fname == "ramp4" else (2.0, 4.0, 3)) if quick else (1.2, 1.5, 2.0, 4.0, 8.0, 3)):
                    cfg = {"constraint": "PAPRConstraint", "complex": cplx, "ndim": len(shape), "family": fname, "limit": lim}
                    try:
                        pc = K.PAPRConstraint(max_papr=lim)
                        if (len(shape) + int(cplx)) % 2 == 1:
                            pc.eval()                 # every other configuration with the module in eval mode
                            cfg["mode"] = "eval"
                        y = pc(x)
                        for b, (xi, yi) in enumerate(zip(items_of(x), items_of(y))):
                            p2 = (yi.abs() ** 2).double()
                            papr = float(p2.max() / p2.mean())
                            q2 = (xi.abs() ** 2).double()          # the quantifier is over inputs: sparsity is a property of the input item
                            frac = float((q2 >= q2.max() / 100.0).double().mean())
                            add({"ev": "Papr", "raised": False, "papr_ppm": sint(min(papr / lim, 2000.0) * 1e6), "frac20_ppm": sint(frac * 1e6), "shape_ok": tuple(y.shape) == tuple(x.shape)},
                                "PAPRConstraint", dict(cfg, item=b))
                    except Exception as ex:
                        add({"ev": "Papr", "raised": True, "error": repr(ex)[:100]}, "PAPRConstraint", cfg)
                    run.case(("papr", cplx, shape, fname, lim), nontrivial=True)
                    # the same batch with items of very different power: the limit is per item, whatever the neighbours look like
                    if len(shape) > 1 and shape[0] > 1 and fname in ("gaussian", "ofdm", "uniform") and lim in (2.0, 4.0):
                        rs = torch.tensor([10.0 ** (-2 + 4 * b / (shape[0] - 1)) for b in range(shape[0])]).reshape((shape[0],) + (1,) * (len(shape) - 1))
                        xs = fams[fname].reshape(shape) * rs        # unit-scale family signal: item scales stay inside the stated 1e-2..1e4
                        cfg2 = dict(cfg, item_scales="1e-2..1e2")
                        try:
                            y = K.PAPRConstraint(max_papr=lim)(xs)
                            for b, (xi, yi) in enumerate(zip(items_of(xs), items_of(y))):
                                p2 = (yi.abs() ** 2).double()
                                q2 = (xi.abs() ** 2).double()
                                add({"ev": "Papr", "raised": False, "papr_ppm": sint(min(float(p2.max() / p2.mean()) / lim, 2000.0) * 1e6),
                                     "frac20_ppm": sint(float((q2 >= q2.max() / 100.0).double().mean()) * 1e6), "shape_ok": tuple(y.shape) == tuple(xs.shape)}, "PAPRConstraint", dict(cfg2, item=b))
                        except Exception as ex:
                            add({"ev": "Papr", "raised": True, "error": repr(ex)[:100]}, "PAPRConstraint", cfg2)
                        run.case(("papr-rowscaled", cplx, shape, fname, lim), nontrivial=True)
    # tight limits on well-behaved (Gaussian, uniform, OFDM-like) signals, the module in training and in eval mode
    for cplx in (False, True):
        fams_t = families(rng, 256, cplx)
        for fname in ("gaussian", "uniform", "ofdm"):
            for shape in ((256,), (4, 64)):
                for lim in (1.25, 1.5):
                    for mode in ("train", "eval"):
                        x = fams_t[fname].reshape(shape)
                        cfg = {"constraint": "PAPRConstraint", "complex": cplx, "ndim": len(shape), "family": fname, "limit": lim, "mode": mode}
                        try:
                            pc = K.PAPRConstraint(max_papr=lim)
                            if mode == "eval":
                                pc.eval()
                            y = pc(x)
                            for b, (xi, yi) in enumerate(zip(items_of(x), items_of(y))):
                                p2 = (yi.abs() ** 2).double()
                                q2 = (xi.abs() ** 2).double()
                                add({"ev": "Papr", "raised": False, "papr_ppm": sint(min(float(p2.max() / p2.mean()) / lim, 2000.0) * 1e6),
                                     "frac20_ppm": sint(float((q2 >= q2.max() / 100.0).double().mean()) * 1e6), "shape_ok": tuple(y.shape) == tuple(x.shape)}, "PAPRConstraint", dict(cfg, item=b))
                        except Exception as ex:
                            add({"ev": "Papr", "raised": True, "error": repr(ex)[:100]}, "PAPRConstraint", cfg)
                        run.case(("papr-tight", cplx, shape, fname, lim, mode), nontrivial=True)
    # ---------------------------------------------------------------- composites: order and equality with sequential application
    pool = [("total", lambda: K.TotalPowerConstraint(2.0)), ("avg", lambda: K.AveragePowerConstraint(0.3)), ("peak", lambda: K.PeakAmplitudeConstraint(0.8)),
            ("papr", lambda: K.PAPRConstraint(max_papr=3.0)), ("identity", lambda: K.IdentityConstraint()),
            ("perantenna", lambda: K.PerAntennaPowerConstraint(uniform_power=0.5)), ("perantenna_budget", lambda: K.PerAntennaPowerConstraint(power_budget=torch.tensor([0.2, 1.0, 0.5, 2.0])))]
    for rep in range(40 if quick else 300):
        chain = [rng.choice(pool) for _ in range(rng.randint(1, 4))]
        parts = [mk() for _, mk in chain]
        order = []
        hooks = [p.register_forward_hook(lambda m_, i, o, idx=idx: order.append(idx)) for idx, p in enumerate(parts, start=1)]
        x = families(rng, 256, False)[rng.choice(["gaussian", "heavy", "ofdm"])].reshape(4, 64) * rng.choice([0.1, 1.0, 20.0])
        if any(nm.startswith("perantenna") for nm, _ in chain):
            # (batch, antennas, samples) with unequal antenna powers, so that a per-antenna stage is not a no-op for the stages around it
            x = x.reshape(2, 4, 32) * torch.tensor([0.3, 1.0, 2.0, 5.0]).reshape(1, 4, 1)
        cfg = {"constraint": "CompositeConstraint", "chain": [nm for nm, _ in chain]}
        try:
            # construction forms in turn: the class, the helper, and a composite that is extended after construction (also after a first use)
            form = ("class", "combine_constraints", "add_constraint", "add_constraint after a call")[rep % 4]
            cfg["form"] = form
            if form == "class":
                comp = K.CompositeConstraint(parts)
            elif form == "combine_constraints":
                comp = K.utils.combine_constraints(parts)
            else:
                comp = K.CompositeConstraint(parts[:1])
                if form.endswith("call"):
                    comp(x)
                    del order[:]
                for p_ in parts[1:]:
                    comp.add_constraint(p_)
            y = comp(x)
            seq_order = list(order)
            ref = x
            for p in parts:
                ref = p(ref)
            yc = K.utils.apply_constraint_chain(parts, x)
            add({"ev": "Composite", "raised": False, "order": seq_order, "declared": list(range(1, len(parts) + 1)),
                 "diff_ppm": sint(min(float((y - ref).abs().max()) / max(float(ref.abs().max()), 1e-30), 1.0) * 1e6),
                 "chain_ppm": sint(min(float((yc - ref).abs().max()) / max(float(ref.abs().max()), 1e-30), 1.0) * 1e6)}, "CompositeConstraint", cfg)
            # the observation point named by the property: measure_signal_properties(constraint(x))
            try:
                mp = K.utils.measure_signal_properties(y)
                p2 = (y.abs().double() ** 2)
                rm, rp = float(p2.mean()), float(p2.max())
                rat = lambda a, b: sint(min(max(a / b, 0.0), 2000.0) * 1e6) if b > 0 else (1000000 if a == b else 0)
                add({"ev": "Measure", "raised": False, "mean_ppm": rat(mp["mean_power"], rm), "peak_ppm": rat(mp["peak_power"], rp), "amp_ppm": rat(mp["peak_amplitude"], rp ** 0.5),
                     "papr_ppm": rat(mp["papr"], rp / rm) if rm > 0 else 1000000, "db_centi": sint(mp["papr_db"] * 100) if rm > 0 else 0,
                     "db_centi_ref": sint(1000 * math.log10(rp / rm)) if rm > 0 else 0}, "measure_signal_properties", cfg)
            except Exception as ex:
                add({"ev": "Measure", "raised": True, "error": repr(ex)[:100]}, "measure_signal_properties", cfg)
        except Exception as ex:
            add({"ev": "Composite", "raised": True, "error": repr(ex)[:100]}, "CompositeConstraint", cfg)
        for h in hooks:
            h.remove()
        run.case(("composite", tuple(nm for nm, _ in chain), rep), nontrivial=len(chain) >= 2)
    # ---------------------------------------------------------------- factory composites: all limits simultaneously
    for cplx in (False, True):
        for peak in (None, 0.05):
            for papr in (4.0, 6.0):
                x = families(rng, 4 * 256, cplx)["ofdm"].reshape(4, 256) * 3.0
                cfg = {"constraint": "create_ofdm_constraints", "complex": cplx, "peak": peak is not None, "max_papr": papr}
                try:
                    y = create_ofdm_constraints(total_power=1.0, max_papr=papr, is_complex=cplx, peak_amplitude=peak)(x)
                    for b, (xi, yi) in enumerate(zip(items_of(x), items_of(y))):
                        p2 = (yi.abs() ** 2).double()
                        q2 = (xi.abs() ** 2).double()
                        add({"ev": "Factory", "raised": False, "power_ppm": sint(float(p2.sum()) * 1e6), "peak_ppm": -1 if peak is None else sint(float(yi.abs().max()) / peak * 1e6),
                             "papr_ppm": sint(float(p2.max() / p2.mean()) / papr * 1e6), "frac20_ppm": sint(float((q2 >= q2.max() / 100).double().mean()) * 1e6),
                             "ant_min_ppm": -1, "ant_max_ppm": -1}, "create_ofdm_constraints", dict(cfg, item=b))
                except Exception as ex:
                    add({"ev": "Factory", "raised": True, "error": repr(ex)[:100]}, "create_ofdm_constraints", cfg)
                run.case(("ofdm", cplx, peak, papr), nontrivial=True)
        for papr in (None, 3.0):
            x = families(rng, 2 * 4 * 64, cplx)["gaussian"].reshape(2, 4, 64) * 2.0
            cfg = {"constraint": "create_mimo_constraints", "complex": cplx, "max_papr": papr}
            try:
                y = create_mimo_constraints(num_antennas=4, uniform_power=0.25, max_papr=papr)(x)
                ap = (y.abs() ** 2).double().mean(dim=2)
                p2 = (y.abs() ** 2).double()
                add({"ev": "Factory", "raised": False, "power_ppm": -1, "peak_ppm": -1, "papr_ppm": -1 if papr is None else sint(float((p2.reshape(2, -1).max(dim=1)[0] / p2.reshape(2, -1).mean(dim=1)).max()) / papr * 1e6),
                     "frac20_ppm": 1000000, "ant_min_ppm": sint(float(ap.min()) / 0.25 * 1e6), "ant_max_ppm": sint(float(ap.max()) / 0.25 * 1e6)}, "create_mimo_constraints", cfg)
            except Exception as ex:
                add({"ev": "Factory", "raised": True, "error": repr(ex)[:100]}, "create_mimo_constraints", cfg)
            run.case(("mimo", cplx, papr), nontrivial=True)
    run.log("%d events" % len(evs))
    mism = tv.validate(run, "Trace_Constraints", evs, name="TV C08", timeout=1800)
    seen = set()
    for (t, line, clause) in mism:
        comp, cfg = meta[line - 1]
        key = (comp, clause, cfg.get("complex"), cfg.get("ndim"), cfg.get("family"))
        if key in seen:
            continue
        seen.add(key)
        run.violate(comp, clause, cfg, evs[line - 1], "event rejected by Trace_Constraints clause %s" % clause)
    run.sample({"config": meta[0][1], "event": evs[0]})
    run.sample({"config": meta[len(evs) // 2][1], "event": evs[len(evs) // 2]})
    run.extra["explanation"] = ("numeric contract: the harness is a sensor measuring every batch item (power, output/input ratio, idempotence, rescale invariance, peak, PAPR, "
                                "20-dB occupancy) in ppm of the configured limit; the contracts and all exemptions (zero input, negligible power, sparse signals) are operators of "
                                "Constraints.tla evaluated by TLC. Composition order is discrete: the stage order recorded by forward hooks must equal the declared order.")
    if not run.only and not [m for m in mism if m[1] <= 60]:        # the self-test slice (the first 60 events) was accepted
        def corrupt(ev2):
            i = next(i for i, e in enumerate(ev2) if e["ev"] == "Power" and not e["raised"] and not e["zero_input"])
            ev2[i]["power_ppm"] += 5000
            return i + 1
        ok, msg = tv.selftest_binding("Trace_Constraints", evs[:60], corrupt, "item_power_never_exceeds_target")
        if not ok:
            raise tlc.TLCFailure("binding self-test failed: " + msg)
        run.extra["binding_selftest"] = "raising one measured item power by 0.5 % is rejected at that line"
    run.assumptions += ["float32 allowance 2 ppm above the target; 'non-negligible' = input item power >= 1e-3 (the implementation adds 1e-8 to the measured power)"]
