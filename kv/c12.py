"""C12 - binary channels follow their transition law and never leave their alphabet.

MC  : MC_BinaryChannels - for every (channel, alphabet, erasure symbol) the transition relation is total on the alphabet, closed (outputs stay in the
      alphabet plus the erasure symbol), the extreme output is allowed, and the band arithmetic never overflows for N up to 2 * 10^6.
TV  : per (channel, probability, alphabet, dtype, shape): 10^6 symbols are pushed through the real channel and aggregated into the transition-count
      table; Trace_Channels decides the support / alphabet / determinism (p = 0, p = 1) / immutability clauses exactly on the table, and the event rate
      and lag-1 independence clauses from the counts against a 7-sigma binomial band evaluated in integer arithmetic. (sensor: the counts)
"""
import random

import torch
from .core import sint

from . import tlc, tv

LEVEL = "model_checking"


def table_event(ch_name, mk, p1000, alphabet, dtype, shape, er, seed, N):
    g = torch.Generator().manual_seed(seed)
    numel = 1
    for d in shape:
        numel *= d
    bits = (torch.rand(numel, generator=g) < 0.5)
    if alphabet == "bipolar":
        x = (bits.float() * 2 - 1)
        x[0] = -1.0                      # the bipolar format is recognised by the presence of a -1
    else:
        x = bits.float()
    x = x.reshape(shape)
    x = x.to(dtype) if dtype != torch.bool else (x > 0)
    if x.dim() >= 2 and seed % 2 == 1:
        from .core import transposed_view
        x = transposed_view(x)          # every other multi-dimensional input is the dense transposed view of a buffer stored last-dimension-first
    before = x.clone()
    torch.manual_seed(seed + 1)
    ch = mk()
    ev = {"ev": "Table", "channel": ch_name, "alphabet": alphabet, "pn": p1000, "D": 1000, "er2": sint(er * 2), "cells": [], "input_unchanged": True, "shape_ok": True,
          "N": numel, "pairs": -1, "npairs": 0, "raised": False}
    # calling contexts in turn: plain, under torch.no_grad(), under torch.inference_mode() (as the library's examples call the binary channels)
    ctx = (None, torch.no_grad, torch.inference_mode)[seed % 3]
    ev["context"] = "plain" if ctx is None else ctx.__name__
    if ctx is None:
        y = ch(x)
    else:
        with ctx():
            y = ch(x)
    ev["input_unchanged"] = bool(torch.equal(before, x))
    ev["shape_ok"] = tuple(y.shape) == tuple(x.shape)
    xf = x.float().reshape(-1)
    yf = y.float().reshape(-1)
    x2 = torch.round(xf * 2).long()
    y2 = torch.round(yf * 2).long()
    frac = bool(((yf * 2 - y2.float()).abs() > 1e-6).any())
    key = (x2 + 8) * 64 + (y2 + 8).clamp(0, 63)
    vals, counts = torch.unique(key, return_counts=True)
    for v, c in zip(vals.tolist(), counts.tolist()):
        ev["cells"].append([v // 64 - 8, v % 64 - 8, c])
    if frac:
        ev["cells"].append([0, 99, 0])
        ev["cells"].append([1, 97, 1])        # a non-half-integer output value: outside every alphabet
    # events and lag-1 joint count
    if ch_name == "bsc":
        evt = y2 != x2
    elif ch_name == "z":
        evt = (x2 == 2) & (y2 != x2)
    else:
        evt = (y2 == ev["er2"]) & (x2 != ev["er2"])
    if ch_name == "z":
        elig = (x2 == 2)
        both = elig[:-1] & elig[1:]
        ev["npairs"] = int(both.sum())
        ev["pairs"] = int((evt[:-1] & evt[1:] & both).sum())
    else:
        ev["npairs"] = numel - 1
        ev["pairs"] = int((evt[:-1] & evt[1:]).sum())
    # a second call on the same channel object with the same input: the events of the two calls are independent (no pattern reuse)
    ev["cpairs"], ev["cnpairs"] = -1, 0
    try:
        yb = torch.round(ch(x).float().reshape(-1) * 2).long()
        if ch_name == "bsc":
            evt_b = yb != x2
        elif ch_name == "z":
            evt_b = (x2 == 2) & (yb != x2)
        else:
            evt_b = (yb == ev["er2"]) & (x2 != ev["er2"])
        ev["cnpairs"] = int((x2 == 2).sum()) if ch_name == "z" else (int((x2 != ev["er2"]).sum()) if ch_name == "bec" else numel)
        ev["cpairs"] = int((evt & evt_b).sum())
    except Exception:
        pass
    # joint count of the same position in consecutive batch items (a noise pattern reused across items shows here, not at lag 1)
    ev["ipairs"], ev["inpairs"] = -1, 0
    if len(shape) >= 2 and shape[0] >= 2:
        lag = numel // shape[0]
        if ch_name == "z":
            both = elig[:-lag] & elig[lag:]
            ev["inpairs"] = int(both.sum())
            ev["ipairs"] = int((evt[:-lag] & evt[lag:] & both).sum())
        else:
            ev["inpairs"] = numel - lag
            ev["ipairs"] = int((evt[:-lag] & evt[lag:]).sum())
    return ev


def _maker(cls, p, er, form):
    """The channel object built through one of the documented construction forms."""
    from kaira.channels import BinaryErasureChannel, ChannelRegistry
    pname = {"BinarySymmetricChannel": "crossover_prob", "BinaryErasureChannel": "erasure_prob", "BinaryZChannel": "error_prob"}[cls.__name__]
    bec = cls is BinaryErasureChannel
    if form == "positional":
        return (lambda: cls(p, er)) if bec else (lambda: cls(p))
    if form == "keyword":
        return (lambda: cls(**{pname: p, "erasure_symbol": er})) if bec else (lambda: cls(**{pname: p}))
    if form == "registry":
        return (lambda: ChannelRegistry.create(cls.__name__.lower(), **({pname: p, "erasure_symbol": er} if bec else {pname: p})))
    return (lambda: cls(p, erasure_symbol=er)) if bec else (lambda: cls(p))


def run(run):
    rng = random.Random(run.seed)
    quick = run.tier == "quick"
    run.rule = ("(channel, probability, alphabet, dtype, shape, erasure symbol) configurations, 10^6 symbols each aggregated into a transition table; "
                "non-trivial = probability strictly between 0 and 1 or a deterministic extreme; distinct by configuration")
    r = tlc.run("MC_BinaryChannels", "SPECIFICATION Spec\nCHECK_DEADLOCK FALSE\nINVARIANT LawOK\n", workers=8, timeout=600)
    if not r.ok:
        raise tlc.TLCFailure("MC_BinaryChannels: %s %s" % (r.errors, r.violated))
    run.add_tlc("MC_BinaryChannels", r)
    from kaira.channels import BinaryErasureChannel, BinarySymmetricChannel, BinaryZChannel
    N = 1000000
    probs = [0, 1, 10, 100, 300, 500, 900, 999, 1000]
    shapes = [(N,), (1000, 1000), (10, 10, 100, 100), (1, N), (N // 2, 2), (N, 1)]      # including narrow rows: a row may happen to hold no -1 at all
    evs, meta = [], []
    tid = 0
    for ch_name, cls in (("bsc", BinarySymmetricChannel), ("z", BinaryZChannel), ("bec", BinaryErasureChannel)):
        for pi, p in enumerate(probs):
            for alphabet in ("binary", "bipolar"):
                dts = [torch.float32, torch.float64, torch.int64] + ([torch.bool] if alphabet == "binary" else [])
                if quick:
                    dts = [dts[(pi + (0 if alphabet == "binary" else 1)) % len(dts)]] + ([torch.bool] if (alphabet == "binary" and pi % 4 == 0) else [])
                for di, dt in enumerate(dts):
                    ers = [-1.0] if ch_name != "bec" else ([-1.0, 2.0, 0.5] if (not quick or pi % 3 == 0) else [-1.0 if alphabet == "binary" else 2.0])
                    for er in ers:
                        if ch_name == "bec" and alphabet == "bipolar" and er == -1.0:
                            er = 0.0            # an erasure symbol inside the alphabet would be indistinguishable from a symbol
                        shape = shapes[(pi + di) % len(shapes)]
                        cfg = {"channel": ch_name, "p": p / 1000.0, "alphabet": alphabet, "dtype": str(dt).replace("torch.", ""), "ndim": len(shape), "erasure_symbol": er}
                        # construction forms in turn: keyword erasure symbol, everything positional, everything by keyword, by registry name
                        form = ("default", "positional", "keyword", "registry")[tid % 4]
                        cfg["form"] = form
                        mk = _maker(cls, p / 1000.0, er, form)
                        tid += 1
                        try:
                            e = table_event(ch_name, mk, p, alphabet, dt, shape, er, run.seed * 1000 + tid, N)
                        except Exception as ex:
                            run.violate(cls.__name__, "channel_raised", cfg, {"error": repr(ex)[:200]})
                            continue
                        e["tid"] = tid
                        evs.append(e)
                        meta.append((cls.__name__, cfg))
                        run.case(tuple(sorted(cfg.items())), nontrivial=True)
    # half-precision inputs: the noise must still be drawn and compared at full resolution (a coarse grid shifts small and near-one probabilities)
    for ch_name, cls in (("bsc", BinarySymmetricChannel), ("z", BinaryZChannel), ("bec", BinaryErasureChannel)):
        for dt in (torch.float16, torch.bfloat16):
            for pi, p in enumerate((1, 10, 300, 999)):
                alphabet = "binary" if (pi + (dt == torch.float16)) % 2 == 0 else "bipolar"
                er = -1.0 if alphabet == "binary" else 0.0
                shape = shapes[pi % len(shapes)]
                cfg = {"channel": ch_name, "p": p / 1000.0, "alphabet": alphabet, "dtype": str(dt).replace("torch.", ""), "ndim": len(shape), "erasure_symbol": er}
                mk = (lambda cls=cls, p=p, er=er: cls(p / 1000.0) if cls is not BinaryErasureChannel else cls(p / 1000.0, erasure_symbol=er))
                tid += 1
                try:
                    e = table_event(ch_name, mk, p, alphabet, dt, shape, er, run.seed * 1000 + tid, N)
                except Exception as ex:
                    run.violate(cls.__name__, "channel_raised", cfg, {"error": repr(ex)[:200]})
                    continue
                e["tid"] = tid
                evs.append(e)
                meta.append((cls.__name__, cfg))
                run.case(tuple(sorted(cfg.items())), nontrivial=True)
    run.log("%d configurations x %d symbols" % (len(evs), N))
    mism = tv.validate(run, "Trace_Channels", evs, name="TV C12", timeout=1800)
    seen = set()
    for (t, line, clause) in mism:
        comp, cfg = meta[line - 1]
        key = (comp, clause, cfg["alphabet"], cfg["dtype"])
        if key in seen:
            continue
        seen.add(key)
        run.violate(comp, clause, cfg, {k: v for k, v in evs[line - 1].items()}, "Table rejected by Trace_Channels clause %s" % clause)
    run.sample(evs[3])
    run.sample(evs[len(evs) // 2])
    run.extra["symbols_per_configuration"] = N
    run.extra["explanation"] = ("support, alphabet, p=0/p=1 determinism, immutability and shape are decided exactly on the full transition-count table of 10^6 symbols per "
                                "configuration; rates and lag-1 independence are statistical: the harness only counts, TLC evaluates the 7-sigma binomial band")
    if not mism and not run.only:
        def corrupt(ev2):
            i = next(i for i, e in enumerate(ev2) if e["channel"] == "z" and 0 < e["pn"] < 1000)
            ev2[i]["cells"] = ev2[i]["cells"] + [[0 if ev2[i]["alphabet"] == "binary" else -2, 2, 1]]
            ev2[i]["N"] += 1
            return i + 1
        ok, msg = tv.selftest_binding("Trace_Channels", evs, corrupt, "output_within_transition_support_and_alphabet")
        if not ok:
            raise tlc.TLCFailure("binding self-test failed: " + msg)
        run.extra["binding_selftest"] = "adding a single 0 -> 1 transition to a Z-channel table is rejected at that line"
    run.assumptions += ["per-run false-alarm bound: 7 sigma per statistical clause (2.6e-12) x < 400 clauses < 1e-9; seeds derive from VERIF_SEED"]
