"""C05 - noise-free modulation followed by hard demodulation returns the transmitted bits.

MC : MC_ModemMemory - the memory schemes as state machines (DPSK phase accumulator, OQPSK quadrature register, pi/4-QPSK rotation flag) under
     all sequences of Reset / SetMode / Modulate: after Reset and in eval mode the round-trip law (with the inherent start-up loss) holds and
     eval-mode calls never move the memory; training-mode calls may (so nothing is demanded there).
TV : per scheme/order/option: every bit group, every ordered pair of symbols for the memory schemes, seeded long sequences, 1-D and batched
     layouts, repeated eval-mode calls, and train -> reset -> eval histories; each row is a RoundTrip event judged by Trace_Modem.
"""
import itertools
import random

import torch

from . import modem, tlc, tv

LEVEL = "model_checking"


def rows_for(s, rng, quick):
    b = s.b
    M = 2 ** b
    grp = lambda v: [(v >> (b - 1 - i)) & 1 for i in range(b)]
    rows = []
    allsym = [x for v in range(M) for x in grp(v)]
    longn = 200 if quick else 4000
    if s.kind in ("memoryless", "identity"):
        rows.append(("2d", [allsym, allsym[::-1] if b == 1 else [x for v in reversed(range(M)) for x in grp(v)]]))
        rows.append(("1d", [allsym]))
        rows.append(("2d", [[rng.randrange(2) for _ in range(b * longn)] for _ in range(2)]))
    else:
        pairs = list(itertools.product(range(M), repeat=2))
        if len(pairs) > 256 and quick:
            pairs = rng.sample(pairs, 256)
        if s.kind == "dpsk":
            batch = [grp(rng.randrange(M)) + grp(a) + grp(c) for a, c in pairs]
        else:
            batch = [grp(a) + grp(c) for a, c in pairs]
        rows.append(("2d", batch))
        if s.kind in ("pi4", "oqpsk") and not quick:
            rows.append(("2d", [grp(a) + grp(c) + grp(d) for a, c, d in itertools.product(range(M), repeat=3)]))
        # odd numbers of symbols per row: per-row memory must restart at every row, whatever the parity of the row length
        rows.append(("2d", [grp(rng.randrange(M)) + grp(rng.randrange(M)) + grp(rng.randrange(M)) for _ in range(6)]))
        rows.append(("2d", [[rng.randrange(2) for _ in range(b * 5)] for _ in range(4)]))
        rows.append(("2d", [[rng.randrange(2) for _ in range(b * 6)]]))                 # a batch of one row
        if s.kind != "dpsk":        # a differential demodulator needs two symbols per row: rejecting a single one is its documented start-up behaviour
            rows.append(("2d", [grp(rng.randrange(M)) for _ in range(5)]))              # one symbol per row
        rows.append(("1d", [[rng.randrange(2) for _ in range(b * 8)]]))
        rows.append(("1d", [allsym[:b * 2]]))            # a short 1-D sequence (two symbols)
        rows.append(("2d", [[rng.randrange(2) for _ in range(b * longn)] for _ in range(2)]))
    return rows


def roundtrip(s, layout, batch, pair=None, dtype=None):
    """Returns list of (bits, out, nsym, raised) per row."""
    m, d = pair if pair is not None else (s.mod(), s.dem())
    for o in (m, d):
        if hasattr(o, "reset_state"):
            o.reset_state()
    res = []
    if layout == "1d":
        for bits in batch:
            try:
                y = m(torch.tensor(bits, dtype=torch.float32))
                out = d(y)
                res.append((bits, modem.out_bits(out), int(y.shape[-1]), False, ""))
            except Exception as e:
                res.append((bits, [], 0, True, repr(e)[:100]))
            for o in (m, d):
                if hasattr(o, "reset_state"):
                    o.reset_state()
        return res
    try:
        X = torch.tensor(batch, dtype=torch.float32)
        if dtype is not None:
            X = X.to(dtype)
        elif layout == "2d" and len(batch) % 3 == 1:
            from .core import noncontiguous
            X = noncontiguous(X)          # some batches arrive as a non-contiguous strided view of a larger buffer
        elif layout == "2d" and len(batch) % 3 == 2:
            from .core import transposed_view
            X = transposed_view(X)        # ... or as the dense transposed view of a bit-major buffer
        if layout == "3d":          # two leading batch dimensions: the symbol axis is still the last one
            X = X.reshape((2, len(batch) // 2, -1) if len(batch) % 2 == 0 else (1, len(batch), -1))
        y = m(X)
        out = d(y)
        if s.kind == "memoryless":
            out2 = d(y)                   # the received tensor demodulated a second time gives the same bits (it is the caller's, not a workspace)
            if out2.shape != out.shape or not torch.equal(out2, out):
                out = out2
        out = out.reshape(len(batch), -1)
        for i, bits in enumerate(batch):
            res.append((bits, modem.out_bits(out[i]), int(y.shape[-1]), False, ""))
    except Exception as e:
        for bits in batch:
            res.append((bits, [], 0, True, repr(e)[:100]))
    return res


def run(run):
    rng = random.Random(run.seed)
    quick = run.tier == "quick"
    run.rule = ("per scheme: every bit group, every ordered symbol pair (memory schemes), seeded long sequences, 1-D and batched rows, histories "
                "(repeated eval calls, train->reset->eval); non-trivial = at least two symbols; distinct by (scheme, history step, bit row)")
    for (M, off) in ([(2, 1), (4, 0)] if quick else [(2, 1), (2, 0), (4, 0), (4, 1), (8, 0)]):
        r = tlc.run("MC_ModemMemory", "CONSTANTS M = %d\nOffset = %d\nMaxBlock = 3\nMaxCalls = 3\nSPECIFICATION Spec\nCHECK_DEADLOCK FALSE\n"
                    "INVARIANT DpskRoundTrip\nINVARIANT CleanStart\nPROPERTY EvalKeepsMemory\n" % (M, off), workers=16, timeout=1200)
        if not r.ok:
            raise tlc.TLCFailure("MC_ModemMemory M=%d: %s %s" % (M, r.errors, r.violated))
        run.add_tlc("MC_ModemMemory M=%d offset=%d" % (M, off), r)
    cat = modem.catalogue(run.tier)
    if run.only:
        cat = [s for s in cat if s.config() == {k: v for k, v in run.only.get("config", {}).items() if k not in ("layout", "step")}]
    evs, owner = [], []
    tid = 0
    rejected3d = set()
    rejected_forms = set()
    for s in cat:
        try:
            b = s.b
            tid += 1
            hdr = modem.scheme_event(s, tid) or {"ev": "Scheme", "tid": tid, "name": s.name, "b": b, "S": 1, "pts": [], "labels": [], "gray": False,
                                                 "unit": False, "modidx": [], "slack": 0}
            evs.append(hdr)
            owner.append((s, "", ""))
            rws = rows_for(s, rng, quick)
            # the batched cases again with two leading batch dimensions (rank-3 input); a scheme may reject that rank, a wrong answer counts
            rws = rws + [("3d", batch) for (layout, batch) in rws if layout == "2d" and len(batch) >= 2 and len({len(r) for r in batch}) == 1][:3]
            for layout, batch in rws:
                steps = ["fresh", "again"] if s.kind in ("dpsk", "oqpsk", "pi4") else ["fresh"]
                if s.kind in ("dpsk", "oqpsk", "pi4") and layout == "2d":
                    steps.append("after_train_then_reset")
                for step in steps:
                    if step == "after_train_then_reset":
                        m = s.mod()
                        m.train()
                        try:
                            m(torch.tensor(batch[:1], dtype=torch.float32))
                        except Exception:
                            pass
                        m.eval()
                    for (bits, out, nsym, raised, err) in roundtrip(s, layout, batch):
                        if layout == "3d" and raised:
                            rejected3d.add(s.name)
                            continue
                        tid += 1
                        evs.append({"ev": "RoundTrip", "tid": tid, "kind": s.kind, "bits": bits, "out": out, "nsym": nsym, "raised": raised, "error": err})
                        owner.append((s, layout, step))
                        run.case((s.name, layout, step, tuple(bits[:64]), len(bits)), nontrivial=len(bits) >= 2 * b)
            # the same pair after the nn.Module protocol has been applied to both objects (deep copy, pickle round trip, state_dict into a
            # fresh object, eval mode, .double()): a row whose answer differs from the pair's own is logged and judged like any other
            from .core import module_forms
            probe = next(((lay, bt) for (lay, bt) in rws if lay == "2d"), rws[0] if rws else None)
            if probe is not None:
                base = roundtrip(s, probe[0], probe[1])
                # the bits as other dtypes (a modulator may reject one; different bits count)
                for dt in (torch.float64, torch.int64, torch.uint8, torch.int8, torch.bool, torch.float16, torch.bfloat16):
                    kind = "bits as " + str(dt).replace("torch.", "")
                    for (b0, (bits, out, nsym, raised, err)) in zip(base, roundtrip(s, probe[0], probe[1], dtype=dt)):
                        run.case((s.name, probe[0], kind, tuple(bits[:64]), len(bits)), nontrivial=len(bits) >= 2 * b)
                        if raised and not b0[3]:
                            rejected_forms.add((s.name, kind))
                            continue
                        if (out, raised) != (b0[1], b0[3]):
                            tid += 1
                            evs.append({"ev": "RoundTrip", "tid": tid, "kind": s.kind, "bits": bits, "out": out, "nsym": nsym, "raised": raised, "error": err, "form": kind})
                            owner.append((s, probe[0], kind))
                fm, fd = dict(module_forms(s.mk_mod(), mk=s.mk_mod)), dict(module_forms(s.mk_dem(), mk=s.mk_dem))
                for kind in fm:
                    if kind not in fd:
                        continue
                    for (b0, (bits, out, nsym, raised, err)) in zip(base, roundtrip(s, probe[0], probe[1], pair=(fm[kind], fd[kind]))):
                        run.case((s.name, probe[0], kind, tuple(bits[:64]), len(bits)), nontrivial=len(bits) >= 2 * b)
                        if raised and not b0[3]:
                            rejected_forms.add((s.name, kind))      # a converted object may reject the float32 test input; only a different answer counts
                            continue
                        if (out, raised) != (b0[1], b0[3]):
                            tid += 1
                            evs.append({"ev": "RoundTrip", "tid": tid, "kind": s.kind, "bits": bits, "out": out, "nsym": nsym, "raised": raised, "error": err, "form": kind})
                            owner.append((s, probe[0], kind))
        except Exception as ex:
            run.violate(s.component, "construction_raised", s.config(), {"scheme": s.name, "error": repr(ex)[:200]})
    run.log("%d schemes, %d events" % (len(cat), len(evs)))
    run.extra["schemes_rejecting_rank_3_input"] = sorted(rejected3d)
    run.extra["module_forms_rejecting_the_input"] = sorted("%s after %s" % x for x in rejected_forms)
    mism = tv.validate(run, "Trace_Modem", evs, name="TV C05", timeout=3000, heap="12g")
    seen = set()
    for (t, line, clause) in mism:
        e = evs[line - 1]
        s, layout, step = owner[line - 1]
        if e["ev"] != "RoundTrip":
            continue
        short = len(e["bits"]) <= 4
        key = (s.name, clause, layout, short)
        if key in seen:
            continue
        seen.add(key)
        cfg = dict(s.config(), layout=layout, short=short)
        run.violate(s.component, clause, cfg, {"scheme": s.name, "step": step, "bits": e["bits"][:32], "out": e["out"][:32], "nsym": e["nsym"], "error": e.get("error", "")},
                    "RoundTrip rejected by Trace_Modem clause %s" % clause)
    rt = [e for e in evs if e["ev"] == "RoundTrip"]
    run.sample({k: (v if not isinstance(v, list) else v[:24]) for k, v in rt[0].items()})
    run.sample({k: (v if not isinstance(v, list) else v[:24]) for k, v in rt[len(rt) // 2].items()})
    if not run.only and not [m for m in mism if m[1] <= 12]:        # the self-test slice (the first 12 events) was accepted
        def corrupt(ev2):
            i = next(i for i, e in enumerate(ev2) if e["ev"] == "RoundTrip" and len(e["out"]) > 2)
            ev2[i]["out"] = [1 - ev2[i]["out"][0]] + ev2[i]["out"][1:]
            return i + 1
        ok, msg = tv.selftest_binding("Trace_Modem", evs[:12], corrupt, "hard_demodulation_returns_the_bits")
        if not ok:
            raise tlc.TLCFailure("binding self-test failed: " + msg)
        run.extra["binding_selftest"] = "flipping one demodulated bit is rejected at that line"
