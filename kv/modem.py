"""Shared modem machinery: scheme catalogue and projections (complex points <-> scaled integers / indices)."""
import math

import torch
from .core import sint


class Scheme:
    def __init__(self, name, kind, b, mk_mod, mk_dem, gray=False, unit=False, component=None, cfg=None, registry=None):
        self.name = name
        self.kind = kind              # memoryless | dpsk | oqpsk | pi4 | identity
        self.b = b
        self.mk_mod = mk_mod
        self.mk_dem = mk_dem
        self.gray = gray
        self.unit = unit
        self.component = component
        self.cfg = dict(cfg or {})
        self.registry = registry
        self._mod = None
        self._dem = None

    def mod(self):
        if self._mod is None:
            self._mod = self.mk_mod()
            self._mod.eval()
        return self._mod

    def dem(self):
        if self._dem is None:
            self._dem = self.mk_dem()
            self._dem.eval()
        return self._dem

    def config(self):
        c = {"scheme": self.component, "kind": self.kind}
        c.update(self.cfg)
        return c

    def points(self):
        m = self.mod()
        c = getattr(m, "constellation", None)
        if c is None:
            return None
        c = c.to(torch.complex128) if c.is_complex() else torch.complex(c.double(), torch.zeros_like(c.double()))
        return [(float(z.real), float(z.imag)) for z in c]

    def labels(self):
        m = self.mod()
        bp = getattr(m, "bit_patterns", None)
        if bp is None:
            pts = self.points()
            if pts is not None and len(pts) == 2:
                return [0, 1]
            return None
        out = []
        for row in bp.tolist():
            v = 0
            for bit in row:
                v = v * 2 + sint(bit)
            out.append(v)
        return out


def scale_for(pts, limit=8000):
    mx = max(max(abs(x), abs(y)) for x, y in pts)
    return limit / mx if mx > 0 else 1.0


def catalogue(tier):
    from kaira import modulations as M
    from kaira.modulations import ModulationRegistry as R
    quick = tier == "quick"
    S = []

    def add(*a, **k):
        S.append(Scheme(*a, **k))
    for co in (True, False):
        add("BPSK(complex_output=%s)" % co, "memoryless", 1, (lambda co=co: M.BPSKModulator(complex_output=co)), (lambda: M.BPSKDemodulator()), unit=True,
            component="BPSK", cfg={"complex_output": co})
    for nz in (True, False):
        add("QPSK(normalize=%s)" % nz, "memoryless", 2, (lambda nz=nz: M.QPSKModulator(normalize=nz)), (lambda nz=nz: M.QPSKDemodulator(normalize=nz)), gray=True, unit=nz,
            component="QPSK", cfg={"normalize": nz})
    for order in (4, 8, 16, 32, 64):
        for g in (True, False):
            add("PSK(%d,gray=%s)" % (order, g), "memoryless", int(math.log2(order)), (lambda o=order, g=g: M.PSKModulator(order=o, gray_coding=g)),
                (lambda o=order, g=g: M.PSKDemodulator(order=o, gray_coding=g)), gray=g, unit=True, component="PSK", cfg={"order": order, "gray": g})
    for order in (4, 16, 64, 256):
        for g in (True, False):
            for nz in (True, False):
                add("QAM(%d,gray=%s,normalize=%s)" % (order, g, nz), "memoryless", int(math.log2(order)),
                    (lambda o=order, g=g, nz=nz: M.QAMModulator(order=o, gray_coding=g, normalize=nz)),
                    (lambda o=order, g=g, nz=nz: M.QAMDemodulator(order=o, gray_coding=g, normalize=nz)), gray=g, unit=nz, component="QAM",
                    cfg={"order": order, "gray": g, "normalize": nz})
    for order in (2, 4, 8, 16, 32, 64):
        for g in (True, False):
            for nz in (True, False):
                add("PAM(%d,gray=%s,normalize=%s)" % (order, g, nz), "memoryless", int(math.log2(order)),
                    (lambda o=order, g=g, nz=nz: M.PAMModulator(order=o, gray_coding=g, normalize=nz)),
                    (lambda o=order, g=g, nz=nz: M.PAMDemodulator(order=o, gray_coding=g, normalize=nz)), gray=g, unit=nz, component="PAM",
                    cfg={"order": order, "gray": g, "normalize": nz})
    for order in (2, 4, 8, 16):
        for g in (True, False):
            add("DPSK(%d,gray=%s)" % (order, g), "dpsk", int(math.log2(order)), (lambda o=order, g=g: M.DPSKModulator(order=o, gray_coding=g)),
                (lambda o=order, g=g: M.DPSKDemodulator(order=o, gray_coding=g)), gray=g, unit=True, component="DPSK", cfg={"order": order, "gray": g})
    # the documented alternative keywords (bits_per_symbol, gray_coded) and fully positional construction
    for b in (2, 3):
        add("DPSK(bits_per_symbol=%d,gray_coded=False)" % b, "dpsk", b, (lambda b=b: M.DPSKModulator(bits_per_symbol=b, gray_coded=False)),
            (lambda b=b: M.DPSKDemodulator(bits_per_symbol=b, gray_coded=False)), gray=False, unit=True, component="DPSK",
            cfg={"order": 2 ** b, "gray": False, "form": "bits_per_symbol, gray_coded"})
    add("DPSK(order=4,gray_coded=False)", "dpsk", 2, (lambda: M.DPSKModulator(order=4, gray_coded=False)), (lambda: M.DPSKDemodulator(order=4, gray_coded=False)),
        gray=False, unit=True, component="DPSK", cfg={"order": 4, "gray": False, "form": "order, gray_coded"})
    add("DPSK(8,False)", "dpsk", 3, (lambda: M.DPSKModulator(8, False)), (lambda: M.DPSKDemodulator(8, False)), gray=False, unit=True, component="DPSK",
        cfg={"order": 8, "gray": False, "form": "positional"})
    add("PSK(8,False)", "memoryless", 3, (lambda: M.PSKModulator(8, False)), (lambda: M.PSKDemodulator(8, False)), gray=False, unit=True, component="PSK",
        cfg={"order": 8, "gray": False, "form": "positional"})
    add("QAM(16,False,False)", "memoryless", 4, (lambda: M.QAMModulator(16, False, False)), (lambda: M.QAMDemodulator(16, False, False)), gray=False, unit=False,
        component="QAM", cfg={"order": 16, "gray": False, "normalize": False, "form": "positional"})
    add("PAM(8,False,False)", "memoryless", 3, (lambda: M.PAMModulator(8, False, False)), (lambda: M.PAMDemodulator(8, False, False)), gray=False, unit=False,
        component="PAM", cfg={"order": 8, "gray": False, "normalize": False, "form": "positional"})
    add("DBPSK", "dpsk", 1, (lambda: M.DBPSKModulator()), (lambda: M.DBPSKDemodulator()), unit=True, component="DPSK", cfg={"order": 2, "gray": False, "alias": "dbpsk"})
    add("DQPSK", "dpsk", 2, (lambda: M.DQPSKModulator()), (lambda: M.DQPSKDemodulator()), gray=True, unit=True, component="DPSK", cfg={"order": 4, "gray": True, "alias": "dqpsk"})
    for nz in (True, False):
        add("OQPSK(normalize=%s)" % nz, "oqpsk", 2, (lambda nz=nz: M.OQPSKModulator(normalize=nz)), (lambda nz=nz: M.OQPSKDemodulator(normalize=nz)), gray=True, unit=nz,
            component="OQPSK", cfg={"normalize": nz})
    for g in (True, False):
        add("Pi4QPSK(gray=%s)" % g, "pi4", 2, (lambda g=g: M.Pi4QPSKModulator(gray_coded=g)), (lambda: M.Pi4QPSKDemodulator()), gray=g, unit=True, component="Pi4QPSK",
            cfg={"gray": g})
    add("Identity", "identity", 1, (lambda: M.IdentityModulator()), (lambda: M.IdentityDemodulator()), component="Identity")
    # the same classes through the registry (create-by-name must behave like direct construction)
    for (nm, kw, kind, b, comp, cfg, g, u) in [("qpskmodulator", {}, "memoryless", 2, "QPSK", {"normalize": True, "via": "registry"}, True, True),
                                                 ("bpskmodulator", {}, "memoryless", 1, "BPSK", {"complex_output": True, "via": "registry"}, False, True),
                                                 ("pskmodulator", {"order": 8}, "memoryless", 3, "PSK", {"order": 8, "gray": True, "via": "registry"}, True, True),
                                                 ("qammodulator", {"order": 16}, "memoryless", 4, "QAM", {"order": 16, "gray": True, "normalize": True, "via": "registry"}, True, True),
                                                 ("pammodulator", {"order": 4}, "memoryless", 2, "PAM", {"order": 4, "gray": True, "normalize": True, "via": "registry"}, True, True),
                                                 ("dpskmodulator", {"order": 4, "gray_coding": False}, "dpsk", 2, "DPSK", {"order": 4, "gray": False, "via": "registry"}, False, True),
                                                 ("dbpsk", {}, "dpsk", 1, "DPSK", {"order": 2, "gray": False, "alias": "dbpsk", "via": "registry"}, False, True),
                                                 ("dqpsk", {}, "dpsk", 2, "DPSK", {"order": 4, "gray": True, "alias": "dqpsk", "via": "registry"}, True, True),
                                                 ("oqpsk", {}, "oqpsk", 2, "OQPSK", {"normalize": True, "via": "registry"}, True, True),
                                                 ("pi4qpsk", {}, "pi4", 2, "Pi4QPSK", {"gray": True, "via": "registry"}, True, True),
                                                 ("identitymodulator", {}, "identity", 1, "Identity", {"via": "registry"}, False, False)]:
        dn = nm.replace("modulator", "demodulator")
        try:
            R.get_modulator(nm)
            R.get_demodulator(dn)
        except Exception:
            continue
        add("registry:%s%s" % (nm, kw), kind, b, (lambda nm=nm, kw=kw: R.create_modulator(nm, **kw)), (lambda dn=dn, kw=kw: R.create_demodulator(dn, **kw)),
            gray=g, unit=u, component=comp, cfg=cfg)
    return S


def bits_to_tensor(bits, shape=None):
    t = torch.tensor(bits, dtype=torch.float32)
    return t.reshape(shape) if shape else t


def out_bits(t):
    return [sint(float(v)) if abs(float(v) - round(float(v))) < 1e-6 and float(v) in (0.0, 1.0) else -1 for v in t.reshape(-1).tolist()]


def nearest_index(z, pts, tol=1e-4):
    best, bi = None, -1
    for i, (x, y) in enumerate(pts):
        d = abs(z.real - x) + abs(z.imag - y)
        if best is None or d < best:
            best, bi = d, i
    return bi if best is not None and best < tol else -1


def scheme_event(s, tid, limit=8000):
    """Header event publishing the constellation of a scheme (integer points, labels, modulator image of every label)."""
    pts = s.points()
    labels = s.labels()
    if pts is None or labels is None:
        return None
    S = int(scale_for(pts, limit))
    ipts = [[sint(x * S), sint(y * S)] for x, y in pts]
    modidx = []
    held = []
    int_diffs = []
    if s.kind != "oqpsk" and len(labels) == len(pts):
        m = s.mod()
        if hasattr(m, "reset_state"):
            m.reset_state()
        for L in range(2 ** s.b):
            bits = [(L >> (s.b - 1 - i)) & 1 for i in range(s.b)]
            try:
                y = m(torch.tensor([bits], dtype=torch.float32))
                held.append(y)                      # results are kept and read only after every label has been modulated
                z = complex(y.reshape(-1)[0])
                modidx.append(nearest_index(z, pts) + 1)
            except Exception:
                held.append(None)
                modidx.append(0)
            if hasattr(m, "reset_state"):
                m.reset_state()
            # the same label as an integer bit tensor (the form the library's examples use): a modulator may reject it, but an answer that
            # differs from the float form replaces the entry, so that the specification judges it
            try:
                yi = m(torch.tensor([bits], dtype=torch.int64))
                zi = complex(yi.reshape(-1)[0])
                ii = nearest_index(zi, pts) + 1
                if ii != modidx[-1]:
                    modidx[-1] = ii
                    int_diffs.append(L)
            except Exception:
                pass
            if hasattr(m, "reset_state"):
                m.reset_state()
    # all labels at once as the rows of a batch (two symbols per row: the label and its complement), given contiguously, as the dense transposed
    # view of a bit-major buffer and as a strided view: the first symbol of row L is the point of label L in every form
    if modidx and s.kind == "memoryless":
        from .core import noncontiguous, transposed_view
        rowsb = [[(L >> (s.b - 1 - i)) & 1 for i in range(s.b)] + [1 - ((L >> (s.b - 1 - i)) & 1) for i in range(s.b)] for L in range(2 ** s.b)]
        T_ = torch.tensor(rowsb, dtype=torch.float32)
        for form, Xf in (("batched", T_), ("transposed view", transposed_view(T_)), ("strided view", noncontiguous(T_))):
            try:
                yb = m(Xf).reshape(len(rowsb), -1)
            except Exception:
                continue
            for L in range(len(rowsb)):
                ib = nearest_index(complex(yb[L, 0]), pts) + 1
                if modidx[L] > 0 and ib != modidx[L]:
                    modidx[L] = ib
                    int_diffs.append(L)
    # a result handed out earlier must still be the point it was when the later calls are over (no buffer shared between calls)
    for L, y in enumerate(held):
        if y is not None and modidx[L] > 0:
            again = nearest_index(complex(y.reshape(-1)[0]), pts) + 1
            if again != modidx[L]:
                modidx[L] = again
    return {"ev": "Scheme", "tid": tid, "name": s.name, "b": s.b, "S": S, "pts": ipts, "labels": labels, "gray": bool(s.gray), "unit": bool(s.unit),
            "modidx": modidx, "slack": 90000, "labels_whose_integer_form_differs": int_diffs}
