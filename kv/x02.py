"""X02 (extended coverage, not a listed property) - the name -> class registries follow Registry.tla.

MC : MC_Registry for both policies (overwrite in place / reject duplicates): no duplicate names, lookup returns the class of the deciding
     registration, failed operations change nothing, names listed in order of first registration. Vacuity guard: the first-writer law on the
     overwriting registry must be rejected.
GEN: every exported history is replayed on the seven real registries (channels, constraints, losses, modulators, demodulators: overwrite;
     metrics, models: reject) with fresh names and fresh classes, comparing raised / returned class / instance type / listed names at every step.
"""
import torch

from . import tlc

LEVEL = "model_checking"

CFG = '''CONSTANTS Names = {"a","b"}
Classes = {"K1","K2"}
Policy = "%s"
LawPolicy = "%s"
MaxLen = %d
Export = %s
SPECIFICATION Spec
CHECK_DEADLOCK FALSE
INVARIANT NoDuplicateNames
INVARIANT LookupLaw
INVARIANT FailedOpsChangeNothing
INVARIANT ListOrderLaw
INVARIANT ExportInv
'''


def adapters():
    from kaira.channels import BaseChannel, ChannelRegistry
    from kaira.constraints import BaseConstraint, ConstraintRegistry
    from kaira.losses import BaseLoss, LossRegistry
    from kaira.metrics import BaseMetric, MetricRegistry
    from kaira.models import BaseModel, ModelRegistry
    from kaira.modulations import BaseDemodulator, BaseModulator, ModulationRegistry

    def mk(base, tag):
        ns = {"forward": (lambda self, *a, **k: a[0] if a else None), "__init__": (lambda self, *a, **k: base.__init__(self))}
        if base in (BaseModulator, BaseDemodulator):
            ns["bits_per_symbol"] = property(lambda self: 1)
        return {c: type("Kvx%s%s" % (tag, c), (base,), dict(ns)) for c in ("K1", "K2")}
    A = []
    A.append(dict(name="ChannelRegistry", policy="overwrite", classes=mk(BaseChannel, "Ch"), store=ChannelRegistry._channels, register=ChannelRegistry.register,
                  deco=ChannelRegistry.register_channel, get=ChannelRegistry.get, create=ChannelRegistry.create, list=ChannelRegistry.list_channels))
    A.append(dict(name="ConstraintRegistry", policy="overwrite", classes=mk(BaseConstraint, "Co"), store=ConstraintRegistry._constraints, register=ConstraintRegistry.register,
                  deco=ConstraintRegistry.register_constraint, get=ConstraintRegistry.get, create=ConstraintRegistry.create, list=ConstraintRegistry.list_constraints))
    A.append(dict(name="LossRegistry", policy="overwrite", classes=mk(BaseLoss, "Lo"), store=LossRegistry._losses, register=LossRegistry.register,
                  deco=LossRegistry.register_loss, get=LossRegistry.get, create=LossRegistry.create, list=LossRegistry.list_losses))
    A.append(dict(name="ModulationRegistry(modulator)", policy="overwrite", classes=mk(BaseModulator, "Mo"), store=ModulationRegistry._modulators,
                  register=(lambda n, c: ModulationRegistry.register(n, c, mode="modulator")), deco=ModulationRegistry.register_modulator,
                  get=ModulationRegistry.get_modulator, create=ModulationRegistry.create_modulator, list=ModulationRegistry.list_modulators))
    A.append(dict(name="ModulationRegistry(demodulator)", policy="overwrite", classes=mk(BaseDemodulator, "De"), store=ModulationRegistry._demodulators,
                  register=(lambda n, c: ModulationRegistry.register(n, c, mode="demodulator")), deco=ModulationRegistry.register_demodulator,
                  get=ModulationRegistry.get_demodulator, create=ModulationRegistry.create_demodulator, list=ModulationRegistry.list_demodulators))
    A.append(dict(name="MetricRegistry", policy="reject", classes=mk(BaseMetric, "Me"), store=MetricRegistry._metrics, register=MetricRegistry.register,
                  deco=MetricRegistry.register_metric, get=None, create=MetricRegistry.create, list=MetricRegistry.list_metrics))
    A.append(dict(name="ModelRegistry", policy="reject", classes=mk(BaseModel, "Md"), store=ModelRegistry._models, register=ModelRegistry.register,
                  deco=ModelRegistry.register_model, get=ModelRegistry.get, create=ModelRegistry.create, list=ModelRegistry.list_models))
    return A


def replay(a, h, use_deco):
    names = {"a": "kvx_a", "b": "kvx_b"}
    store = a["store"]
    for n in names.values():
        store.pop(n, None)
    before = list(a["list"]())
    try:
        for step, e in enumerate(h, start=1):
            op, n, c, raised, res = e[0], e[1], e[2], bool(e[3]), list(e[4])
            if op == "register":
                try:
                    if use_deco:
                        a["deco"](names[n])(a["classes"][c])
                    else:
                        a["register"](names[n], a["classes"][c])
                    got = False
                except ValueError:
                    got = True
                if got != raised:
                    return (step, "register_raises_exactly_for_duplicates_under_the_reject_policy", raised, got)
            elif op in ("get", "create"):
                fn = a[op]
                if fn is None:
                    continue
                try:
                    r = fn(names[n])
                    got, cls = False, (r if op == "get" else type(r))
                except KeyError:
                    got, cls = True, None
                if got != raised:
                    return (step, "lookup_raises_exactly_for_absent_names", raised, got)
                if not raised and cls is not a["classes"][res[0]]:
                    return (step, "lookup_returns_the_class_of_the_deciding_registration", res[0], getattr(cls, "__name__", str(cls)))
            else:
                lst = list(a["list"]())
                mine = [x for x in lst if x in names.values()]
                if mine != [names[x] for x in res]:
                    return (step, "names_listed_in_order_of_first_registration", [names[x] for x in res], mine)
                if [x for x in lst if x not in names.values()] != before:
                    return (step, "other_entries_untouched", before[:5], [x for x in lst if x not in names.values()][:5])
    finally:
        for n in names.values():
            store.pop(n, None)
    return None


def run(run):
    quick = run.tier == "quick"
    ml = 4 if quick else 5
    run.rule = "every history of length %d over register / get / create / list with two names and two classes, per registry; distinct by (registry, history)" % ml
    g = tlc.run("MC_Registry", CFG % ("overwrite", "reject", 4, "FALSE"), workers=4, timeout=600)
    if g.ok or "LookupLaw" not in " ".join(g.violated):
        raise tlc.TLCFailure("vacuity guard: first-writer law accepted on the overwriting registry (%s)" % (g.violated,))
    run.extra["vacuity_guard"] = "first-writer law on the overwriting registry violates LookupLaw"
    hists = {}
    for pol in ("overwrite", "reject"):
        r = tlc.run("MC_Registry", CFG % (pol, pol, ml, "TRUE"), workers=1, timeout=1800)
        if not r.ok:
            raise tlc.TLCFailure("MC_Registry %s: %s %s" % (pol, r.errors, r.violated))
        run.add_tlc("MC_Registry %s MaxLen=%d" % (pol, ml), r)
        hists[pol] = [h[1] for h in r.tuples("RHIST")]
        if len(hists[pol]) != 9 ** (ml - 1) * 5:
            raise tlc.TLCFailure("registry export incomplete: %d" % len(hists[pol]))
    for a in adapters():
        bad = False
        for i, h in enumerate(hists[a["policy"]]):
            d = replay(a, h, use_deco=(i % 2 == 1))
            run.traces += 1
            run.case((a["name"], str(h)), nontrivial=True)
            if d and not bad:
                bad = True
                run.violate(a["name"], d[1], {"registry": a["name"]}, {"history": h, "step": d[0], "expected": d[2], "observed": d[3]}, "history replay disagrees with Registry.tla")
        run.log("%s: %d histories replayed" % (a["name"], len(hists[a["policy"]])))
    # binding demonstration: histories of the overwriting design must be rejected by a rejecting registry
    m = [a for a in adapters() if a["name"] == "MetricRegistry"][0]
    nbad = sum(1 for h in hists["overwrite"] if replay(m, h, False))
    if nbad == 0:
        raise tlc.TLCFailure("binding self-test failed: overwrite histories accepted by the rejecting MetricRegistry")
    run.extra["binding_selftest"] = "%d of %d overwrite-policy histories are rejected when replayed on the duplicate-rejecting MetricRegistry" % (nbad, len(hists["overwrite"]))
    run.sample({"history": hists["overwrite"][len(hists["overwrite"]) // 3]})
    run.assumptions += ["fresh names (kvx_a, kvx_b) are removed from the registry's dictionary before and after each history"]
    run.exhaustive = True
