"""C11 - polar encoding is the Arikan transform on the 5G information set and inverts.

MC : MC_Polar - butterfly = subset rule (multiplication by the Kronecker power), involution, commutes with bit reversal; textbook SC (min-sum on
     integers and sum-product on the ln 2 lattice, plain and interleaved layouts) recovers every message from noise-free LLRs for every mask.
TV : Rank (structural identification of the reliability table), Code (published information mask = ranking selection, exactly k positions,
     generator matrix = Kronecker power), Enc (codeword = transform of the placed message), Clean (SC and polar-BP, both regimes, decode
     noise-free LLRs) and Sc (SC output on arbitrary integer / ln 2-lattice LLRs equals the textbook rule; ties excluded by the spec) events.
"""
import contextlib
import hashlib
import io
import math
import os
import random

import torch
from .core import sint

from . import tlc, tv

LEVEL = "model_checking"


def quiet(f, *a, **k):
    with contextlib.redirect_stdout(io.StringIO()):
        return f(*a, **k)


def bits(t):
    return [sint(float(v)) for v in t.reshape(-1).tolist()]


def run(run):
    rng = random.Random(run.seed)
    quick = run.tier == "quick"
    run.rule = ("(N, k, frozen value, interleaving, regime, user mask) configurations x messages (all 2^k for small k) x LLR inputs; non-trivial = "
                "non-zero message or arbitrary LLR vector; distinct by (configuration, event kind, input)")
    for N in ((2, 4, 8) if quick else (2, 4, 8, 16)):
        invs = ["ButterflyIsKronecker", "Involution", "ReversalCommutes"] + (["CleanDecodes"] if N <= 8 else [])
        r = tlc.run("MC_Polar", "CONSTANT N = %d\nSPECIFICATION Spec\nCHECK_DEADLOCK FALSE\n" % N + "".join("INVARIANT %s\n" % i for i in invs), workers=16, timeout=3000)
        if not r.ok:
            raise tlc.TLCFailure("MC_Polar N=%d: %s %s" % (N, r.errors, r.violated))
        run.add_tlc("MC_Polar N=%d" % N, r)
    from kaira.models.fec.decoders import BeliefPropagationPolarDecoder, SuccessiveCancellationDecoder
    from kaira.models.fec.encoders import PolarCodeEncoder
    import kaira.models.fec as fecpkg
    import pandas as pd
    csv = os.path.join(os.path.dirname(fecpkg.__file__), "rank_polar.csv")
    rank = [int(v) for v in pd.read_csv(csv, sep=" ", index_col=0).Q.values]
    run.extra["rank_table_sha1"] = hashlib.sha1((",".join(map(str, rank))).encode()).hexdigest()
    run.assumptions.append("the 5G reliability table is trusted data: identified structurally (permutation, universal partial order) and by digest, not re-derived")
    evs = [{"ev": "Rank", "tid": 1, "rank": rank}]
    meta = [None]
    tid = 1
    configs = []
    for N in (2, 4, 8, 16, 32):
        ks = range(1, N) if (N <= 16 or not quick) else sorted(rng.sample(range(1, N), 8))
        for k in ks:
            for fz in (0, 1):
                for il in (False, True):
                    if quick and N >= 16 and (k + fz + il) % 2 == 1:
                        continue
                    configs.append((N, k, fz, il, None))
    for N in ((64, 128, 256, 1024) if quick else (64, 128, 256, 512, 1024)):
        for _ in range(2 if quick else 6):
            configs.append((N, rng.randrange(1, N), rng.randrange(2), rng.random() < 0.5, None))
    # high-rate codes put information on the least reliable positions: their check-node values are the smallest the decoder meets
    for (N, k) in (((128, 127), (256, 250)) if quick else ((64, 63), (128, 127), (256, 250), (512, 496), (1024, 1000), (1024, 842))):
        configs.append((N, k, rng.randrange(2), rng.random() < 0.5, None))
    for N in (4, 8, 16):
        for _ in range(3 if quick else 10):
            k = rng.randrange(1, N)
            pos = set(rng.sample(range(N), k))
            configs.append((N, k, rng.randrange(2), rng.random() < 0.5, [1 if j in pos else 0 for j in range(N)]))
    for (N, k, fz, il, um) in configs:
        cfg = {"N": N, "k": k, "frozen_zeros": fz == 0, "interleave": il, "user_mask": um is not None}
        try:
            kw = dict(frozen_zeros=(fz == 0), polar_i=il)
            mask_buf = None
            if um is not None:
                mask_buf = torch.tensor(um, dtype=torch.bool)
                kw.update(load_rank=False, info_indices=mask_buf)
            enc = quiet(PolarCodeEncoder, k, N, **kw)
            if mask_buf is not None:
                mask_buf.logical_not_()        # the caller reuses its mask buffer afterwards: the encoder keeps the set it was constructed with
        except Exception as ex:
            run.violate("PolarCodeEncoder", "construction_raised", cfg, {"error": repr(ex)[:200]})
            continue
        tid += 1
        gm = []
        if N <= 16:
            G = enc.get_generator_matrix()
            gm = [bits(G[i]) for i in range(N)]
        evs.append({"ev": "Code", "tid": tid, "N": N, "k": k, "fz": fz, "il": il, "info": [int(v) for v in enc.info_indices.tolist()], "usermask": um or [], "gm": gm})
        meta.append(("PolarCodeEncoder", cfg))
        run.case(("code", N, k, fz, il, um is not None), nontrivial=True)
        if k <= (6 if quick else 10):
            msgs = [[(m >> i) & 1 for i in range(k)] for m in range(1 << k)]
            if N >= 16 and quick and len(msgs) > 16:
                msgs = rng.sample(msgs, 16)
        else:
            msgs = [[rng.randrange(2) for _ in range(k)] for _ in range(6 if quick else 30)]
        M = torch.tensor(msgs, dtype=torch.float32)
        try:
            X = enc(M)
            xs = [bits(X[i]) for i in range(len(msgs))]
            raised = False
        except Exception as ex:
            xs, raised = [[] for _ in msgs], True
        for m, x in zip(msgs, xs):
            tid += 1
            evs.append({"ev": "Enc", "tid": tid, "msg": m, "x": x, "raised": raised})
            meta.append(("PolarCodeEncoder", cfg))
            run.case(("enc", N, k, fz, il, tuple(m)), nontrivial=any(m))
        if raised or N > (256 if quick else 1024):
            continue
        # decoders on noise-free LLRs
        decs = []
        for regime in ("sum_product", "min_sum"):
            decs.append(("SuccessiveCancellationDecoder", regime, lambda regime=regime: SuccessiveCancellationDecoder(enc, regime=regime)))
            if not il and N <= 64:
                decs.append(("BeliefPropagationPolarDecoder", regime, lambda regime=regime: quiet(BeliefPropagationPolarDecoder, enc, regime=regime, bp_iters=max(10, 2 * int(math.log2(N))))))
        sel = list(range(len(msgs))) if len(msgs) <= 8 else rng.sample(range(len(msgs)), 8)
        for (dname, regime, mk) in decs:
            try:
                dec = mk()
            except Exception as ex:
                run.violate(dname, "construction_raised", dict(cfg, regime=regime), {"error": repr(ex)[:200]})
                continue
            for mag in ((0.5, 4.0) if quick else (0.5, 2.0, 20.0, 100.0)):
                Y = (1 - 2 * X[sel]) * mag
                # one decoder object is reused with growing batches: a single row first, then the whole batch (then, thorough, row by row)
                for bsz in ((0, len(sel)) if quick else (0, len(sel), 1)):
                    try:
                        if bsz == 1:
                            O = torch.cat([dec(Y[i:i + 1]) for i in range(len(sel))], dim=0)
                        elif bsz == 0:
                            O = dec(Y[:1])
                        else:
                            O = dec(Y)
                        outs = [bits(O[i]) for i in range(O.shape[0])]
                        r2 = False
                    except Exception as ex:
                        outs, r2 = [[] for _ in (sel[:1] if bsz == 0 else sel)], True
                    for i, o in zip(sel[:1] if bsz == 0 else sel, outs):
                        tid += 1
                        evs.append({"ev": "Clean", "tid": tid, "msg": msgs[i], "out": o, "raised": r2, "mag": str(mag), "batch": bsz})
                        meta.append((dname, dict(cfg, regime=regime)))
                        run.case(("clean", dname, regime, N, k, fz, il, mag, bsz, tuple(msgs[i])), nontrivial=True)
        # SC on arbitrary inputs against the textbook rule
        for regime in ("min_sum", "sum_product"):
            if regime == "min_sum" and N > 64:
                continue
            if regime == "sum_product" and N > 8:
                continue
            dec = SuccessiveCancellationDecoder(enc, regime=regime)
            cnt = (6 if quick else 40) if N <= 16 else (2 if quick else 8)
            for _ in range(cnt):
                if regime == "min_sum":
                    llr = [rng.randint(-9, 9) or 1 for _ in range(N)]
                    y = torch.tensor([llr], dtype=torch.float32)
                else:
                    llr = [rng.randint(-3, 3) for _ in range(N)]
                    y = torch.tensor([[p * math.log(2.0) for p in llr]], dtype=torch.float64).float()
                try:
                    o = bits(dec(y)[0])
                    r2 = False
                    if any(v not in (0, 1) for v in o):
                        o = [v if v in (0, 1) else 2 for v in o]
                except Exception:
                    o, r2 = [], True
                tid += 1
                evs.append({"ev": "Sc", "tid": tid, "regime": regime, "llr": llr, "out": o, "raised": r2})
                meta.append(("SuccessiveCancellationDecoder", dict(cfg, regime=regime)))
                run.case(("sc", regime, N, k, fz, il, tuple(llr)), nontrivial=True)
    run.log("%d configurations, %d events" % (len(configs), len(evs)))
    mism = tv.validate(run, "Trace_Polar", evs, name="TV C11", timeout=3000, heap="12g")
    ties = len([p for p in getattr(run, "last_prints", []) if isinstance(p, list) and p and p[0] == "TIE"])
    run.extra["sc_inputs_excluded_as_ties"] = ties
    seen = set()
    for (t, line, clause) in mism:
        e = evs[line - 1]
        if meta[line - 1] is None:
            run.violate("rank_polar.csv", clause, {}, {"clause": clause}, "reliability table rejected")
            continue
        comp, cfg = meta[line - 1]
        key = (comp, clause, cfg["N"], cfg["interleave"], cfg.get("regime"), cfg["user_mask"])
        if key in seen:
            continue
        seen.add(key)
        run.violate(comp, clause, cfg, {k: v for k, v in e.items() if k != "gm"}, "%s rejected by Trace_Polar clause %s" % (e["ev"], clause))
    run.sample(next(e for e in evs if e["ev"] == "Enc" and any(e["msg"])))
    run.sample(next(e for e in evs if e["ev"] == "Sc"))
    if not mism and not run.only:
        def corrupt(ev2):
            i = next(i for i, e in enumerate(ev2) if e["ev"] == "Enc" and len(e["x"]) >= 2)
            ev2[i]["x"] = [1 - ev2[i]["x"][0]] + ev2[i]["x"][1:]
            return i + 1
        ok, msg = tv.selftest_binding("Trace_Polar", evs[:60], corrupt, "codeword_is_arikan_transform_of_placed_message")
        if not ok:
            raise tlc.TLCFailure("binding self-test failed: " + msg)
        run.extra["binding_selftest"] = "flipping one bit of one logged codeword is rejected at that line"
