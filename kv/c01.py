"""C01 - encoder, generator matrix and parity-check matrix describe one and the same code.

MC : MC_GF2 (rank = dimension of the span, Enc onto / injective iff full rank, membership by reduction, and the
     null-space lemma: rank n-k + orthogonality  =>  zero syndrome iff codeword) for every matrix pair with small n.
GEN: TLC enumerates every full-rank generator matrix of small shapes; each is constructed in the real code.
TV : per constructed object: Construct (published G, H), Encode for the messages, Syndrome for codewords, single-bit
     perturbations and random words; validated by Trace_BlockCode.
"""
import random

import torch

from . import fec, tlc, tv

LEVEL = "model_checking"
PROP = "C01"


def mc_oracle(run, quick):
    base = ["RankIsDimension", "EncOnto", "EncInjectiveIffFullRank", "MembershipByReduction", "WtOK", "RotOK"]
    shapes = [(3, 1, 1), (3, 2, 1), (4, 2, 1), (4, 3, 1), (5, 2, 0)] + ([] if quick else [(4, 1, 1), (5, 3, 0)])
    for (n, k, lem) in shapes:
        cfg = "CONSTANTS NN = %d\nKK = %d\nExportFull = FALSE\nSPECIFICATION Spec\nCHECK_DEADLOCK FALSE\n" % (n, k) + \
            "".join("INVARIANT %s\n" % i for i in base + (["NullSpaceLemma"] if lem else []))
        r = tlc.run("MC_GF2", cfg, workers=16, timeout=1200)
        if not r.ok:
            raise tlc.TLCFailure("MC_GF2 n=%d k=%d: %s %s" % (n, k, r.errors, r.violated))
        run.add_tlc("MC_GF2 n=%d k=%d%s" % (n, k, " +NullSpaceLemma" if lem else ""), r)


def gen_matrices(run, n, k):
    cfg = "CONSTANTS NN = %d\nKK = %d\nExportFull = TRUE\nSPECIFICATION Spec\nCHECK_DEADLOCK FALSE\nINVARIANT ExportInv\n" % (n, k)
    r = tlc.run("MC_GF2", cfg, workers=1, timeout=600)
    if not r.ok:
        raise tlc.TLCFailure("MC_GF2 export: %s" % r.errors)
    run.add_tlc("GEN full-rank generators n=%d k=%d" % (n, k), r, kind="gen")
    return [g[1] for g in r.tuples("GM")]


def object_events(entry, enc, tid0, rng, quick, run):
    """Events for one constructed object. Returns (events, tid)."""
    n, k = int(enc.code_length), int(enc.code_dimension)
    evs = [fec.construct_event(entry, enc, tid0)]
    tid = tid0
    # messages
    if k <= (8 if quick else 12):
        msgs = list(range(1 << k))
    else:
        msgs = [0, (1 << k) - 1] + [1 << i for i in range(k)] + [rng.randrange(1 << k) for _ in range(60 if quick else 400)]
    M = torch.stack([fec.from_int(m, k) for m in msgs])
    try:
        C = enc(M)
        cws = [fec.to_int(C[i]) for i in range(len(msgs))]
    except Exception as e:
        run.violate(entry.component, "encoder_raised", entry.config(), {"object": entry.name, "error": repr(e)})
        return evs, tid
    for m, c in zip(msgs, cws):
        tid += 1
        evs.append({"ev": "Encode", "tid": tid, "m": fec.limbs(m, k), "c": fec.limbs(c, n)})
        run.case((entry.name, "enc", m), nontrivial=m != 0)
    # the same object after the nn.Module protocol has been applied to it (deep copy, pickle round trip, state_dict into a fresh object, eval
    # mode, .double()): a codeword that differs from the object's own is logged as one more Encode event and judged by the specification
    from .core import module_forms
    sub = list(range(len(msgs))) if len(msgs) <= 16 else [0, 1, 2, len(msgs) // 2, len(msgs) - 1] + rng.sample(range(len(msgs)), 6)
    for kind, enc2 in module_forms(enc, mk=entry.ctor):
        try:
            C2 = enc2(M[sub].double() if kind == "double" else M[sub])
        except Exception as e:
            run.violate(entry.component, "encoder_raised", dict(entry.config(), form=kind), {"object": entry.name, "error": repr(e)[:200], "form": kind})
            continue
        for j, i in enumerate(sub):
            run.case((entry.name, "enc", msgs[i], kind), nontrivial=msgs[i] != 0)
            c2 = fec.to_int(C2[j])
            if c2 != cws[i]:
                tid += 1
                evs.append({"ev": "Encode", "tid": tid, "m": fec.limbs(msgs[i], k), "c": fec.limbs(c2, n), "form": kind})
    # the object itself called under torch.no_grad() / torch.inference_mode(): the codewords are the same
    from .core import call_contexts
    for kind, ctx in call_contexts():
        try:
            with ctx():
                C2 = enc(M[sub])
        except Exception as e:
            run.violate(entry.component, "encoder_raised", dict(entry.config(), form=kind), {"object": entry.name, "error": repr(e)[:200], "form": kind})
            continue
        for j, i in enumerate(sub):
            run.case((entry.name, "enc", msgs[i], kind), nontrivial=msgs[i] != 0)
            c2 = fec.to_int(C2[j])
            if c2 != cws[i]:
                tid += 1
                evs.append({"ev": "Encode", "tid": tid, "m": fec.limbs(msgs[i], k), "c": fec.limbs(c2, n), "form": kind})
    # the input tensor's form: a non-contiguous strided view, a transposed view, a leaf that requires grad
    from .core import noncontiguous
    for kind, Xf in (("strided view", noncontiguous(M[sub])), ("transposed view", M[sub].t().contiguous().t()), ("requires_grad", M[sub].clone().requires_grad_(True))):
        try:
            C2 = enc(Xf).detach()
        except Exception:
            continue            # an encoder may reject the form; only a different codeword counts
        for j, i in enumerate(sub):
            run.case((entry.name, "enc", msgs[i], kind), nontrivial=msgs[i] != 0)
            c2 = fec.to_int(C2[j])
            if c2 != cws[i]:
                tid += 1
                evs.append({"ev": "Encode", "tid": tid, "m": fec.limbs(msgs[i], k), "c": fec.limbs(c2, n), "form": kind})
    # words for the syndrome clause: codewords, single-bit perturbations, random words
    words = []
    sel = cws if len(cws) <= 64 else rng.sample(cws, 64)
    for c in sel:
        words.append(c)
    for c in sel[:16]:
        for j in (range(n) if n <= 16 else rng.sample(range(n), 8)):
            words.append(c ^ (1 << j))
    for _ in range(32 if quick else 128):
        words.append(rng.randrange(1 << n))
    for c in sel[:8]:
        words.append(c ^ cws[rng.randrange(len(cws))])      # sums of codewords are codewords
    W = torch.stack([fec.from_int(w, n) for w in words])
    try:
        S = enc.calculate_syndrome(W)
    except Exception as e:
        run.violate(entry.component, "syndrome_raised", entry.config(), {"object": entry.name, "error": repr(e)})
        return evs, tid
    lin = bool(entry.linear_syndrome) and S.shape[-1] == n - k
    for i, w in enumerate(words):
        tid += 1
        s = S[i]
        zero = bool((s == 0).all())
        evs.append({"ev": "Syndrome", "tid": tid, "w": fec.limbs(w, n), "linear": lin,
                    "s": fec.limbs(fec.to_int(s), max(n - k, 1)) if lin else [0], "zero": zero})
        run.case((entry.name, "syn", w), nontrivial=True)
    # the syndrome as inverse_encode publishes it (second element of its result): zero exactly when calculate_syndrome's is; a word on which the
    # two routes disagree is logged once more with the other route's verdict and judged by the specification
    try:
        r2 = enc.inverse_encode(W)
        S2 = r2[1] if isinstance(r2, tuple) and len(r2) >= 2 and torch.is_tensor(r2[1]) else None
    except Exception:
        S2 = None
    if S2 is not None and S2.dim() >= 1 and S2.shape[0] == len(words):
        for i, w in enumerate(words):
            run.case((entry.name, "syn", w, "inverse_encode"), nontrivial=True)
            z2 = bool((S2[i] == 0).all())
            if z2 != bool((S[i] == 0).all()):
                tid += 1
                evs.append({"ev": "Syndrome", "tid": tid, "w": fec.limbs(w, n), "linear": False, "s": [0], "zero": z2, "route": "inverse_encode"})
    return evs, tid


def collect(run, cat, rng, quick, per_object):
    events, owners = [], []
    tid = 0
    for entry in cat:
        enc = entry.obj()
        if enc is None:
            run.violate(entry.component, "construction_raised", entry.config(), {"object": entry.name, "error": entry.error})
            continue
        evs, tid2 = per_object(entry, enc, tid + 1, rng, quick, run)
        events += evs
        owners += [entry] * len(evs)
        tid = tid2
    return events, owners


def report(run, mism, events, owners, prop_clauses=None):
    seen = set()
    for m in mism:
        t, line, clause = m[0], m[1], m[2]
        entry = owners[line - 1]
        key = (entry.name, clause)
        if key in seen:
            continue
        seen.add(key)
        ev = events[line - 1]
        wit = {"object": entry.name, "event": {k: v for k, v in ev.items() if k not in ("G", "H")}}
        run.violate(entry.component, clause, entry.config(), wit, "%s rejected by Trace_BlockCode clause %s" % (ev["ev"], clause))


def run(run):
    fec_seed = run.seed
    rng = random.Random(fec_seed)
    quick = run.tier == "quick"
    run.rule = ("catalogue of code objects (families x parameters x information sets) plus every full-rank generator matrix of small "
                "shapes enumerated by TLC; per object all messages (k small) and codeword / perturbed / random words. Non-trivial = "
                "non-zero message or any syndrome word; distinct by (object, kind, value)")
    mc_oracle(run, quick)
    from kaira.models.fec.encoders import LinearBlockCodeEncoder
    cat = fec.catalogue(run.tier, rng)
    # TLC-generated generator matrices (every full-rank k x n matrix)
    shapes = [(3, 2), (4, 2)] if quick else [(2, 1), (3, 2), (4, 2), (4, 3), (5, 2)]
    for (n, k) in shapes:
        mats = gen_matrices(run, n, k)
        if quick and len(mats) > 60:
            mats = rng.sample(mats, 60)
        elif len(mats) > 1500:
            mats = rng.sample(mats, 1500)
        for rows in mats:
            G = torch.stack([fec.from_int(r, n) for r in rows])
            cat.append(fec.Entry("Linear(%d,%d)G=%s" % (n, k, rows), "linear_enum", (n, k), (lambda G=G: LinearBlockCodeEncoder(G)),
                                 component="LinearBlockCodeEncoder"))
    if run.only:
        cat = [e for e in cat if e.config() == run.only.get("config") and (e.name == run.only.get("witness", {}).get("object", e.name))]
    run.log("catalogue: %d objects" % len(cat))
    events, owners = collect(run, cat, rng, quick, object_events)
    run.log("%d events recorded" % len(events))
    mism = tv.validate_sharded(run, "Trace_BlockCode", events, (lambda e: e["ev"] == "Construct"), name="TV C01", max_events=30000, jobs=8)
    run.traces -= 1        # traces are counted per constructed object below
    run.traces += sum(1 for e in events if e["ev"] == "Construct")
    report(run, mism, events, owners)
    run.sample({k: v for k, v in events[0].items()})
    run.sample(events[min(5, len(events) - 1)])
    if not run.only and not [m for m in mism if m[1] <= 40]:        # the self-test slice (the first 40 events) was accepted
        def corrupt(ev2):
            i = next(i for i, e in enumerate(ev2) if e["ev"] == "Encode" and e["m"] != [0])
            ev2[i]["c"] = [ev2[i]["c"][0] ^ 1] + ev2[i]["c"][1:]
            return i + 1
        ok, msg = tv.selftest_binding("Trace_BlockCode", events[:40], corrupt, "encoding_equals_message_times_generator")
        if not ok:
            raise tlc.TLCFailure("binding self-test failed: " + msg)
        run.extra["binding_selftest"] = "flipping one bit of one logged codeword is rejected at that line"
    run.extra["objects"] = len(cat)
    run.assumptions += ["published generator_matrix / check_matrix are the object's claim; nothing else of kaira is trusted",
                        "vectors with n > 30 use 30-bit limbs"]
