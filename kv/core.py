"""Harness core: violations, known findings, evidence, replays, CLI glue."""
import hashlib
import json
import os
import subprocess
import sys
import time

ROOT = os.path.dirname(os.path.dirname(os.path.abspath(__file__)))
EVIDENCE_DIR = os.path.join(ROOT, "evidence")
REPLAY_DIR = os.path.join(ROOT, "replays")
FINDINGS = os.path.join(ROOT, "known_findings.json")
REPO = os.environ.get("KV_REPO") or "/repo"     # KV_REPO: a scratch worktree with a seeded change (tools/try_seed_wt.sh); registered commands never set it


def sint(v, bad=99999998):
    """int(round(v)) made total: a NaN / infinite measurement (a broken implementation can produce one) becomes a sentinel far outside every
    band, so that the specification gives a verdict instead of the harness dying with exit 2."""
    try:
        v = float(v)
    except Exception:
        return bad
    if v != v or v in (float("inf"), float("-inf")):
        return bad
    return int(round(v))


def use_repo():
    """Import kaira from /repo's current working tree (never from a cached copy)."""
    if REPO not in sys.path:
        sys.path.insert(0, REPO)
    os.environ.setdefault("KAIRA_VERIF", "1")
    import torch
    torch.set_num_threads(int(os.environ.get("KV_TORCH_THREADS", "1")))   # thousands of tiny tensor ops: threads only add contention
    import kaira  # noqa
    src = os.path.realpath(os.path.dirname(kaira.__file__))
    if not src.startswith(os.path.realpath(REPO)):
        raise RuntimeError("kaira imported from %s, expected %s" % (src, REPO))


class Violation:
    def __init__(self, prop, component, clause, config, witness, detail=""):
        self.prop = prop
        self.component = component
        self.clause = clause
        self.config = dict(config or {})
        self.witness = witness
        self.detail = detail

    def key(self):
        return (self.prop, self.component, self.clause, json.dumps(self.config, sort_keys=True))

    def to_json(self):
        return {"property": self.prop, "component": self.component, "clause": self.clause,
                "config": self.config, "witness": self.witness, "detail": self.detail}


def _match_value(pred, val):
    if pred == "*":
        return True
    if isinstance(pred, dict):
        if "min" in pred and (val is None or val < pred["min"]):
            return False
        if "max" in pred and (val is None or val > pred["max"]):
            return False
        if "in" in pred and val not in pred["in"]:
            return False
        if "not_in" in pred and val in pred["not_in"]:
            return False
        return True
    if isinstance(pred, list):
        return val in pred
    return pred == val


def load_findings():
    if not os.path.exists(FINDINGS):
        return []
    return json.load(open(FINDINGS))["findings"]


def finding_for(v, findings):
    for f in findings:
        if f.get("status") != "known":
            continue
        comp = f["component"]
        if f["property"] != v.prop or not (comp == v.component or (isinstance(comp, list) and v.component in comp)):
            continue
        cl = f["clause"]
        if not (cl == v.clause or (isinstance(cl, list) and v.clause in cl)):
            continue
        cfg = f.get("config", {})
        if all(_match_value(p, v.config.get(k)) for k, p in cfg.items()):
            return f
    return None


class Run:
    """One invocation of a property check. Collects coverage counts and violations."""

    def __init__(self, prop, tier, seed, level, only=None):
        self.prop = prop
        self.tier = tier
        self.seed = seed
        self.level = level
        self.only = only
        self.t0 = time.time()
        self.violations = []
        self.states = 0
        self.transitions = 0
        self.traces = 0
        self.evaluations = 0
        self.distinct = set()
        self.distinct_count = 0
        self.samples = []
        self.extra = {}
        self.assumptions = []
        self.rule = ""
        self.exhaustive = None
        self.notes = []
        self.mc_runs = []

    # ---- accounting -------------------------------------------------------------------------
    def add_tlc(self, name, res, kind="mc", traces=0):
        self.states += res.distinct
        self.transitions += res.generated
        self.traces += traces
        self.mc_runs.append({"name": name, "kind": kind, "distinct_states": res.distinct,
                             "states_generated": res.generated, "depth": res.depth,
                             "wall_s": round(res.wall, 2)})

    def case(self, key, nontrivial=True, n=1):
        self.evaluations += n
        if nontrivial:
            if len(self.distinct) < 2_000_000:
                self.distinct.add(key if isinstance(key, (str, int, tuple)) else json.dumps(key, sort_keys=True))
            else:
                self.distinct_count += 1

    def sample(self, s, cap=8):
        if len(self.samples) < cap:
            self.samples.append(s)

    def violate(self, component, clause, config, witness, detail=""):
        self.violations.append(Violation(self.prop, component, clause, config, witness, detail))

    def log(self, *a):
        print("[%s %6.1fs]" % (self.prop, time.time() - self.t0), *a, flush=True)

    # ---- finishing --------------------------------------------------------------------------
    def finish(self):
        findings = load_findings()
        new, known = {}, {}
        for v in self.violations:
            f = finding_for(v, findings)
            if f is not None:
                known.setdefault(f["id"], [f, 0, v])
                known[f["id"]][1] += 1
            else:
                new.setdefault((v.component, v.clause, json.dumps(v.config, sort_keys=True)), []).append(v)
        for fid, (f, n, v) in sorted(known.items()):
            print("%s=%s %s [%s] %s (%d case(s) this run; e.g. %s)" % (
                "EXTRA-KNOWN-FINDING: check" if self.prop.startswith("X") else "KNOWN-FINDING: property", self.prop, f["component"] if isinstance(f["component"], str) else "/".join(f["component"]), fid, f["description"], n,
                json.dumps(v.witness, sort_keys=True)[:160]))
        listed = [f for f in findings if f["property"] == self.prop and f.get("status") == "known"]
        for f in listed:
            if f["id"] not in known and not self.only:
                print("note: listed finding %s did not reproduce in this run (tier=%s)" % (f["id"], self.tier))
        os.makedirs(REPLAY_DIR, exist_ok=True)
        nviol = 0
        for k, vs in sorted(new.items()):
            v = vs[0]
            rec = v.to_json()
            rec["count_in_run"] = len(vs)
            rec["seed"] = self.seed
            rec["tier"] = self.tier
            h = hashlib.sha1(json.dumps([v.prop, v.component, v.clause, v.config], sort_keys=True).encode()).hexdigest()[:12]
            path = os.path.join(REPLAY_DIR, "%s-%s.json" % (self.prop, h))
            with open(path, "w") as fh:
                json.dump(rec, fh, indent=1, sort_keys=True, default=str)
            if self.prop.startswith("X"):      # extended-coverage checks are not among the listed properties
                print("EXTRA-MISMATCH check=%s replay=%s" % (self.prop, path))
            else:
                print("VIOLATION property=%s replay=%s" % (self.prop, path))
            print("  component=%s clause=%s config=%s cases=%d\n  witness=%s\n  %s" % (
                v.component, v.clause, json.dumps(v.config, sort_keys=True), len(vs),
                json.dumps(v.witness, sort_keys=True, default=str)[:400], v.detail[:400]))
            nviol += 1
        self.write_evidence(nviol, sorted(known))
        return 1 if nviol else 0

    def write_evidence(self, nviol, known_ids):
        cov = {
            "states": self.states,
            "transitions": self.transitions,
            "traces_validated_against_impl": self.traces,
            "evaluations": self.evaluations,
            "distinct_nontrivial": len(self.distinct) + self.distinct_count,
            "rule": self.rule,
            "samples": self.samples[:8] or ["(no case reached)"],
            "tlc_runs": self.mc_runs,
            "known_findings_reproduced": known_ids,
        }
        if self.level == "other":
            cov["explanation"] = self.extra.pop("explanation", self.rule)
        if self.exhaustive is not None:
            cov["exhaustive"] = bool(self.exhaustive)
        cov.update(self.extra)
        if os.environ.get("KV_REPO"):
            return  # a run against a scratch worktree never rewrites the evidence of the registered check
        ev = {"property_id": self.prop, "tier": self.tier, "seed": self.seed, "level": self.level,
              "coverage": cov, "assumptions": self.assumptions, "wall_s": round(time.time() - self.t0, 2),
              "violations": nviol}
        if self.only:
            return  # a replay never rewrites the evidence of the registered check
        edir = EVIDENCE_DIR if not self.prop.startswith("X") else os.path.join(ROOT, "evidence_extra")
        os.makedirs(edir, exist_ok=True)
        tmp = os.path.join(edir, self.prop + ".json.tmp")
        with open(tmp, "w") as fh:
            json.dump(ev, fh, indent=1, default=str)
        os.replace(tmp, os.path.join(edir, self.prop + ".json"))


def git_head(path):
    try:
        return subprocess.run(["git", "-C", path, "rev-parse", "HEAD"], stdout=subprocess.PIPE, text=True).stdout.strip()
    except Exception:
        return "?"


# ----------------------------------------------------------------------------------------------
# the same object after the nn.Module protocol has been applied to it
# ----------------------------------------------------------------------------------------------
def module_forms(obj, mk=None, kinds=("deepcopy", "pickle", "state_dict", "eval", "double")):
    """Variants of a constructed component that must behave like it: a deep copy, a pickle round trip, a fresh object loaded with its
    state_dict (needs mk, the constructor), the object in eval mode, the object converted with .double().  A form the object does not
    support (it cannot be pickled, has no state, ...) is left out; forms never modify `obj` itself."""
    import copy
    import io
    import pickle
    out = []
    for kind in kinds:
        try:
            if kind == "deepcopy":
                v = copy.deepcopy(obj)
            elif kind == "pickle":
                v = pickle.loads(pickle.dumps(obj))
            elif kind == "state_dict":
                if mk is None or not hasattr(obj, "state_dict"):
                    continue
                v = mk()
                buf = io.BytesIO()
                import torch
                torch.save(obj.state_dict(), buf)
                buf.seek(0)
                v.load_state_dict(torch.load(buf))
            elif kind == "eval":
                v = copy.deepcopy(obj)
                v.eval()
            elif kind == "double":
                v = copy.deepcopy(obj)
                v.double()
            else:
                continue
        except Exception:
            continue
        out.append((kind, v))
    return out


def call_contexts():
    """Calling contexts in which a component must give the same answer as in a plain call."""
    import torch
    return [("no_grad", torch.no_grad), ("inference_mode", torch.inference_mode)]


def noncontiguous(x):
    """A tensor equal to x whose last dimension is a stride-2 view into a larger buffer (non-contiguous unless that dimension has one element)."""
    import torch
    if x.dim() == 0:
        return x
    big = torch.zeros(tuple(x.shape[:-1]) + (2 * x.shape[-1],), dtype=x.dtype)
    big[..., ::2] = x
    return big[..., ::2]


def transposed_view(x):
    """A tensor equal to x, dense but non-contiguous: the view of a buffer that stores the last dimension first (x.t() of an (n, B) buffer)."""
    if x.dim() < 2:
        return x
    return x.movedim(-1, 0).contiguous().movedim(0, -1)
