"""X04 (extended coverage, not a listed property) - Poisson, phase-noise and perfect channels against ChannelLaws.tla.

MC : MC_ChannelLaws: the integer band arithmetic accepts the exact law, rejects an 8-sigma deviation, shrinks with N and does not overflow on the driver's grid.
TV : per configuration 10^6 samples (sensor: sums, sample variance, counts of non-integers / negatives, phase and magnitude deviations), judged by
     Trace_ChannelLaws: exact clauses (integrality, support, phase / magnitude preservation, identity at zero, rejection of negative input) and the
     statistical clauses inside 7-sigma bands.
"""
import math

import torch
from .core import sint

from . import tlc, tv

LEVEL = "other"


def run(run):
    quick = run.tier == "quick"
    torch.manual_seed(run.seed)
    run.rule = "(channel, parameter, real/complex, shape) configurations with 10^6 samples each; distinct by configuration"
    r = tlc.run("MC_ChannelLaws", "SPECIFICATION Spec\nCHECK_DEADLOCK FALSE\nINVARIANT BandsOK\n", workers=4, timeout=600)
    if not r.ok:
        raise tlc.TLCFailure("MC_ChannelLaws: %s %s" % (r.errors, r.violated))
    run.add_tlc("MC_ChannelLaws", r)
    from kaira.channels import PerfectChannel, PhaseNoiseChannel, PoissonChannel
    evs, meta = [], []

    def add(e, comp, cfg):
        e["tid"] = len(evs) + 1
        evs.append(e)
        meta.append((comp, cfg))
        run.case(tuple(sorted((k, str(v)) for k, v in cfg.items())), nontrivial=True)
    N = 1000000
    shapes = [(N,), (1000, 1000), (10, 10, 100, 100)]
    ci = 0
    lams = [0.1, 1.0, 5] if quick else [0.01, 0.1, 0.5, 1.0, 5, 20.0, torch.tensor(2.0)]
    xs = [0.0, 0.2, 1.0, 4.0] if quick else [0.0, 0.05, 0.2, 1.0, 4.0, 10.0]
    for lam in lams:
        for xv in xs:
            for cplx in (False, True):
                for norm in (False, True):
                    ci += 1
                    if quick and ci % 2:
                        continue
                    shape = shapes[ci % 3]
                    lamf = float(lam)
                    mu = lamf * xv
                    if mu > 100 or (0 < mu < 0.002) or abs(mu * 1000 - round(mu * 1000)) > 1e-6:
                        continue        # rates are logged in 1/1000: keep to rates that are exact in that unit
                    cfg = {"channel": "PoissonChannel", "rate_factor": lamf, "x": xv, "complex": cplx, "normalize": norm, "ndim": len(shape), "rate_type": type(lam).__name__}
                    e = {"ev": "Poisson", "raised": False, "negative_input": False, "N": N, "mu_milli": sint(mu * 1000), "sum": 0, "var_ppm": 1000000, "nonint": 0, "negcount": 0,
                         "phase_err_ppm": 0, "shape_ok": True}
                    try:
                        if cplx:
                            ph = torch.rand(shape) * 2 * math.pi - math.pi
                            x = torch.polar(torch.full(shape, xv), ph)
                        else:
                            x = torch.full(shape, xv)
                        y = PoissonChannel(rate_factor=lam, normalize=norm)(x)
                        c = (y.abs() if cplx else y).double() * (lamf if norm else 1.0)
                        e["shape_ok"] = tuple(y.shape) == tuple(shape) and y.is_complex() == cplx
                        e["nonint"] = int(((c - c.round()).abs() > 1e-4 * c.abs().clamp(min=1.0)).sum())
                        e["negcount"] = int((c < -1e-9).sum()) if not cplx else 0
                        e["sum"] = sint(float(c.sum()))
                        if mu > 0:
                            e["var_ppm"] = sint(min(float(c.var()) / mu, 2000.0) * 1e6)
                        if cplx:
                            nz = y.abs() > 0
                            if bool(nz.any()):
                                d = torch.angle(y[nz] * torch.conj(x[nz]))
                                e["phase_err_ppm"] = sint(float(d.abs().max()) * 1e6)
                    except Exception as ex:
                        e["raised"] = True
                        e["error"] = repr(ex)[:100]
                    add(e, "PoissonChannel", cfg)
    # a negative real input must be rejected
    for lam in (1.0, 3):
        e = {"ev": "Poisson", "raised": False, "negative_input": True, "N": 4, "mu_milli": 1000, "sum": 0, "var_ppm": 1000000, "nonint": 0, "negcount": 0, "phase_err_ppm": 0, "shape_ok": True}
        try:
            PoissonChannel(rate_factor=lam)(torch.tensor([1.0, -0.5, 2.0, 0.0]))
        except Exception:
            e["raised"] = True
        add(e, "PoissonChannel", {"channel": "PoissonChannel", "rate_factor": lam, "case": "negative_input"})
    sigmas = [0.0, 0.05, 0.3] if quick else [0.0, 0.01, 0.05, 0.1, 0.3, 0.5]
    for sg in sigmas + [torch.tensor(0.2)]:
        for cplx in (False, True):
            ci += 1
            shape = shapes[ci % 3]
            sgf = float(sg)
            cfg = {"channel": "PhaseNoiseChannel", "sigma": sgf, "complex": cplx, "ndim": len(shape), "sigma_type": type(sg).__name__}
            e = {"ev": "Phase", "raised": False, "N": N, "sigma_milli": sint(sgf * 1000), "mag_err_ppm": 0, "complex_out": True, "shape_ok": True, "identity": True, "var_ppm": 1000000, "mean_ppm": 0}
            try:
                x = torch.polar(torch.rand(shape) + 0.5, torch.rand(shape) * 2 * math.pi - math.pi) if cplx else (torch.rand(shape) + 0.5) * torch.sign(torch.randn(shape))
                y = PhaseNoiseChannel(phase_noise_std=sg)(x)
                xc = x if cplx else torch.complex(x, torch.zeros_like(x))
                e["complex_out"] = bool(y.is_complex())
                e["shape_ok"] = tuple(y.shape) == tuple(shape)
                # relative to the sample's own magnitude, floored at a thousandth of the RMS level (a sample that happens to be zero has no ratio)
                floor = 1e-3 * float(xc.abs().pow(2).mean().sqrt())
                e["mag_err_ppm"] = sint(float(((y.abs() - xc.abs()).abs() / xc.abs().clamp_min(floor)).max()) * 1e6)
                th = torch.angle(y * torch.conj(xc)).double()
                if sgf == 0:
                    e["identity"] = bool(torch.allclose(y, xc, rtol=0, atol=1e-7))
                else:
                    e["var_ppm"] = sint(min(float((th ** 2).mean()) / (sgf * sgf), 2000.0) * 1e6)
                    e["mean_ppm"] = sint(abs(float(th.mean())) / sgf * 1e6)
            except Exception as ex:
                e["raised"] = True
                e["error"] = repr(ex)[:100]
            add(e, "PhaseNoiseChannel", cfg)
    for cplx in (False, True):
        for shape in [(7,), (3, 5), (2, 3, 4)]:
            x = torch.complex(torch.randn(shape), torch.randn(shape)) if cplx else torch.randn(shape)
            e = {"ev": "Perfect", "raised": False, "identity": True, "shape_ok": True}
            try:
                y = PerfectChannel()(x)
                e["identity"] = bool(torch.equal(y, x))
                e["shape_ok"] = tuple(y.shape) == tuple(shape)
            except Exception as ex:
                e["raised"] = True
            add(e, "PerfectChannel", {"channel": "PerfectChannel", "complex": cplx, "ndim": len(shape)})
    from kaira.channels import NonlinearChannel
    fns = {"tanh": (torch.tanh, torch.tanh), "cubic": ((lambda v: v + 0.2 * v ** 3), (lambda v: v + 0.2 * v ** 3)), "clip": ((lambda v: torch.clamp(v, -0.5, 0.5)), (lambda v: torch.clamp(v, -0.5, 0.5)))}
    for fname, (f, fd) in fns.items():
        for mode in ("real", "cartesian", "polar", "direct"):
            for shape in [(64,), (1, 64), (4, 16), (2, 2, 16)]:
                cfg = {"channel": "NonlinearChannel", "fn": fname, "mode": mode, "ndim": len(shape)}
                e = {"ev": "Nonlinear", "raised": False, "mode": mode, "err_ppm": 0, "phase_err_ppm": 0, "shape_ok": True}
                try:
                    if mode == "real":
                        x = torch.randn(shape)
                        y = NonlinearChannel(f)(x)
                        ref = fd(x.double())
                        e["shape_ok"] = tuple(y.shape) == shape and not y.is_complex()
                        e["err_ppm"] = sint(float((y.double() - ref).abs().max()) / max(float(ref.abs().max()), 1e-30) * 1e6)
                    else:
                        if mode == "direct" and fname == "clip":
                            continue            # clamp is not defined for complex tensors
                        x = torch.complex(torch.randn(shape), torch.randn(shape))
                        y = NonlinearChannel(f, complex_mode=mode)(x)
                        xd = x.to(torch.complex128)
                        if mode == "cartesian":
                            ref = torch.complex(fd(xd.real), fd(xd.imag))
                        elif mode == "polar":
                            ref = torch.polar(fd(xd.abs()), torch.angle(xd))
                        else:
                            ref = fd(xd)
                        e["shape_ok"] = tuple(y.shape) == shape and y.is_complex()
                        e["err_ppm"] = sint(float((y.to(torch.complex128) - ref).abs().max()) / max(float(ref.abs().max()), 1e-30) * 1e6)
                        if mode == "polar":
                            nz = (y.abs() > 1e-6) & (xd.abs() > 1e-6)
                            e["phase_err_ppm"] = sint(float(torch.angle(y.to(torch.complex128)[nz] * torch.conj(xd[nz])).abs().max()) * 1e6) if bool(nz.any()) else 0
                except Exception as ex:
                    e["raised"] = True
                    e["error"] = repr(ex)[:100]
                add(e, "NonlinearChannel", cfg)
    run.log("%d events" % len(evs))
    mism = tv.validate(run, "Trace_ChannelLaws", evs, name="TV X04", timeout=900)
    seen = set()
    for (t, line, clause) in mism:
        comp, cfg = meta[line - 1]
        if (comp, clause) in seen:
            continue
        seen.add((comp, clause))
        run.violate(comp, clause, cfg, evs[line - 1], "event rejected by Trace_ChannelLaws clause %s" % clause)
    run.sample(evs[3])
    run.sample(next(e for e in evs if e["ev"] == "Phase" and e["sigma_milli"] > 0))
    if not mism:
        def corrupt(ev2):
            i = next(i for i, e in enumerate(ev2) if e["ev"] == "Poisson" and e["mu_milli"] >= 1000 and not e["raised"])
            ev2[i]["sum"] = int(ev2[i]["sum"] * 1.02)
            return i + 1
        ok, msg = tv.selftest_binding("Trace_ChannelLaws", evs, corrupt, "mean_count_equals_rate")
        if not ok:
            raise tlc.TLCFailure("binding self-test failed: " + msg)
        run.extra["binding_selftest"] = "a 2 % shift of one logged Poisson sum is rejected at that line"
    run.extra["explanation"] = ("exact clauses (integrality, support, phase / magnitude preservation, identity, rejection) are decided on every sample through sensor counts; "
                                "the mean / variance clauses are sensor measurements on 10^6 samples judged by TLC against 7-sigma bands of the law")
