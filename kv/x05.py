"""X05 (extended coverage, not a listed property) - apply_blockwise follows Blockwise.tla.

MC : MC_Blockwise: length law, identity, reversal involution for every (rows, L, b, function) with rows <= 3, L, b <= 8 (12 thorough).
GEN: every case TLC exports (expected rows computed by the specification) is replayed on the real apply_blockwise for the layouts 1-D (one row), (R, L),
     (1, R, L) and (R, 1, L): values, shapes, tuple results, rejection exactly when b does not divide L, input unchanged.
"""
import torch

from . import tlc

LEVEL = "model_checking"


def fn_for(name):
    if name == "id":
        return lambda blk: blk
    if name == "rev":
        return lambda blk: blk.flip(-1)
    if name == "par":
        return lambda blk: torch.cat([blk, blk.sum(dim=-1, keepdim=True)], dim=-1)
    if name == "head":
        return lambda blk: blk[..., :1]
    return lambda blk: (blk, blk[..., :1])


def run(run):
    from kaira.models.fec.utils import apply_blockwise
    quick = run.tier == "quick"
    ml = 8 if quick else 12
    run.rule = "every (rows <= 3, L <= %d, block size <= %d, per-block function) x four leading-dimension layouts; distinct by (case, layout)" % (ml, ml)
    cfg = ("CONSTANTS MaxRows = 3\nMaxL = %d\nExport = TRUE\nSPECIFICATION Spec\nCHECK_DEADLOCK FALSE\nINVARIANT LengthLaw\nINVARIANT IdentityLaw\n"
           "INVARIANT RevInvolution\nINVARIANT BlockSizeOneOrWhole\nINVARIANT ExportInv\n" % ml)
    r = tlc.run("MC_Blockwise", cfg, workers=1, timeout=900)
    if not r.ok:
        raise tlc.TLCFailure("MC_Blockwise: %s %s" % (r.errors, r.violated))
    run.add_tlc("MC_Blockwise", r)
    cases = r.tuples("BCASE")
    if len(cases) != 3 * ml * ml * 5:
        raise tlc.TLCFailure("export incomplete: %d cases" % len(cases))
    bad = set()
    for c in cases:
        _, R, L, b, name, divides, exp, exp2 = c[:8]
        base = torch.tensor([[(r_ * L + i + 1) for i in range(L)] for r_ in range(R)], dtype=torch.float32)
        layouts = [("rows", base, (R,)), ("lead1", base.unsqueeze(0), (1, R)), ("mid1", base.unsqueeze(1), (R, 1))]
        if R == 1:
            layouts.append(("1d", base[0], ()))
        for lname, x, lead in layouts:
            run.case((R, L, b, name, lname), nontrivial=bool(divides))
            run.traces += 1
            before = x.clone()
            try:
                y = apply_blockwise(x, b, fn_for(name))
                raised = False
            except AssertionError:
                raised = True
            except Exception as ex:
                raised = True
                if divides and ("raised", lname) not in bad:
                    bad.add(("raised", lname))
                    run.violate("apply_blockwise", "raised_on_a_divisible_length", {"layout": lname, "fn": name}, {"R": R, "L": L, "b": b, "error": repr(ex)[:120]})
                continue
            d = None
            if raised != (not divides):
                d = ("rejects_exactly_when_block_size_does_not_divide_the_length", not divides, raised)
            elif not raised:
                parts = y if isinstance(y, tuple) else (y,)
                want = (exp, exp2) if name == "pair" else (exp,)
                if len(parts) != len(want):
                    d = ("tuple_result_for_tuple_function", len(want), len(parts))
                else:
                    for part, w in zip(parts, want):
                        wt = torch.tensor([list(row) for row in w], dtype=torch.float32).reshape(lead + (-1,))
                        if tuple(part.shape) != tuple(wt.shape):
                            d = ("leading_dimensions_kept_and_blocks_concatenated", list(wt.shape), list(part.shape))
                            break
                        if not torch.equal(part.float(), wt):
                            d = ("blocks_processed_and_concatenated_in_order", wt.reshape(-1)[:8].tolist(), part.reshape(-1)[:8].tolist())
                            break
                if d is None and not torch.equal(before, x):
                    d = ("input_tensor_not_modified", None, None)
            if d and (d[0], lname) not in bad:
                bad.add((d[0], lname))
                run.violate("apply_blockwise", d[0], {"layout": lname, "fn": name}, {"R": R, "L": L, "b": b, "expected": d[1], "observed": d[2]}, "disagrees with Blockwise.tla")
    run.sample({"case": cases[len(cases) // 2][:6]})
    run.log("%d cases x layouts replayed" % len(cases))
    # binding demonstration: a block-reversing function replayed as if it were the identity must be rejected
    c = next(c for c in cases if c[4] == "id" and c[5] and c[3] >= 2 and c[2] > c[3])
    y = apply_blockwise(torch.tensor([[float(v) for v in row] for row in c[6]]), c[3], fn_for("rev"))
    if torch.equal(y, torch.tensor([[float(v) for v in row] for row in c[6]])):
        raise tlc.TLCFailure("binding self-test failed: reversal indistinguishable from identity")
    run.extra["binding_selftest"] = "the exported identity result differs from what the real function returns for block reversal"
    run.exhaustive = True
