"""C09 - a coded, modulated link over an ideal or bounded-error channel returns the data.

MC  : MC_Link - the chain Encode -> Modulate -> Constrain -> Channel{Ideal | Flip(<= t per block) | Displace} -> Demodulate -> Decode as a state
      machine over a frame of lcm(n, bits/symbol)/n blocks: for every message frame and every admissible fault placement, Delivered => out = msg.
TV  : real ChannelCodeModel links (code/decoder pairings x memoryless modems whose bit / LLR interfaces match) are run with forward hooks on
      every stage; the channel is PerfectChannel or a LambdaChannel applying the harness-placed fault (all single positions, all pairs for t = 2,
      displacement < dmin/2). Trace_Link checks stage by stage: encoder output = m.G, symbol count, demodulated word = codeword xor fault,
      delivered message = message.
"""
import contextlib
import io
import itertools
import math
import random

import torch

from . import fec, tlc, tv

LEVEL = "model_checking"


def quiet(f, *a, **k):
    with contextlib.redirect_stdout(io.StringIO()):
        return f(*a, **k)


_LINKS = [0]
_THREE_D = []


def _takes_positional_noise_var(obj):
    import inspect
    try:
        ps = list(inspect.signature(obj.forward).parameters.values())[1:]
    except (TypeError, ValueError):
        return False
    return bool(ps) and (ps[0].kind == inspect.Parameter.VAR_POSITIONAL or ps[0].name == "noise_var")


def pairings(quick):
    from kaira.models.fec import decoders as D
    from kaira.models.fec import encoders as E
    H6 = torch.tensor([[1, 1, 0, 1, 0, 0], [0, 1, 1, 0, 1, 0], [1, 0, 1, 0, 0, 1]])
    P = []
    P.append(("Hamming(7,4)", lambda: E.HammingCodeEncoder(3), "SyndromeLookupDecoder", lambda e: D.SyndromeLookupDecoder(e), "hard", 1, True))
    P.append(("Hamming(7,4)", lambda: E.HammingCodeEncoder(3), "BruteForceMLDecoder", lambda e: D.BruteForceMLDecoder(e), "hard", 1, True))
    P.append(("Hamming(15,11)", lambda: E.HammingCodeEncoder(4), "BruteForceMLDecoder", lambda e: D.BruteForceMLDecoder(e), "hard", 1, True))      # a codebook of 2048 words
    P.append(("Hamming(8,4)", lambda: E.HammingCodeEncoder(3, extended=True), "SyndromeLookupDecoder", lambda e: D.SyndromeLookupDecoder(e), "hard", 1, True))
    # the same code with other information sets, built after the default layout in the same process (nothing may be shared between the decoder objects)
    P.append(("Hamming(7,4)/right", lambda: E.HammingCodeEncoder(3, information_set="right"), "SyndromeLookupDecoder", lambda e: D.SyndromeLookupDecoder(e), "hard", 1, True))
    P.append(("Hamming(7,4)/[0,2,4,6]", lambda: E.HammingCodeEncoder(3, information_set=[0, 2, 4, 6]), "SyndromeLookupDecoder", lambda e: D.SyndromeLookupDecoder(e), "hard", 1, True))
    P.append(("BCH(15,7)", lambda: E.BCHCodeEncoder(4, 5), "BerlekampMasseyDecoder", lambda e: D.BerlekampMasseyDecoder(e), "hard", 2, True))
    # non-perfect codes through the syndrome table: a table whose entries are not minimum-weight coset leaders is invisible on perfect codes
    P.append(("BCH(15,7)", lambda: E.BCHCodeEncoder(4, 5), "SyndromeLookupDecoder", lambda e: D.SyndromeLookupDecoder(e), "hard", 2, True))
    P.append(("RM(1,3)", lambda: E.ReedMullerCodeEncoder(1, 3), "SyndromeLookupDecoder", lambda e: D.SyndromeLookupDecoder(e), "hard", 1, True))
    P.append(("Cyclic(7,3)", lambda: E.CyclicCodeEncoder(code_length=7, generator_polynomial=0b10111), "SyndromeLookupDecoder", lambda e: D.SyndromeLookupDecoder(e), "hard", 1, True))
    P.append(("RM(1,3)", lambda: E.ReedMullerCodeEncoder(1, 3), "BruteForceMLDecoder", lambda e: D.BruteForceMLDecoder(e), "hard", 1, True))
    P.append(("Repetition(3)", lambda: E.RepetitionCodeEncoder(3), "BruteForceMLDecoder", lambda e: D.BruteForceMLDecoder(e), "hard", 1, True))
    P.append(("Golay(23,12)", lambda: E.GolayCodeEncoder(), "SyndromeLookupDecoder", lambda e: D.SyndromeLookupDecoder(e), "hard", 3, True))
    P.append(("SPC(4)", lambda: E.SingleParityCheckCodeEncoder(4), "WagnerSoftDecisionDecoder", lambda e: D.WagnerSoftDecisionDecoder(e), "soft", 0, True))
    P.append(("LDPC(3x6)", lambda: E.LDPCCodeEncoder(check_matrix=H6), "BeliefPropagationDecoder", lambda e: D.BeliefPropagationDecoder(e, bp_iters=5), "soft", 0, True))
    P.append(("LDPC(3x6)", lambda: E.LDPCCodeEncoder(check_matrix=H6), "MinSumLDPCDecoder", lambda e: D.MinSumLDPCDecoder(e, bp_iters=5), "soft", 0, True))
    P.append(("Polar(8,4)", lambda: quiet(E.PolarCodeEncoder, 4, 8), "SuccessiveCancellationDecoder", lambda e: D.SuccessiveCancellationDecoder(e), "soft", 0, False))
    P.append(("Polar(8,4)", lambda: quiet(E.PolarCodeEncoder, 4, 8, frozen_zeros=True), "BeliefPropagationPolarDecoder", lambda e: quiet(D.BeliefPropagationPolarDecoder, e), "soft", 0, False))
    return P


def modems():
    from kaira import modulations as M
    return [("BPSK", 1, lambda: M.BPSKModulator(), lambda: M.BPSKDemodulator()), ("QPSK", 2, lambda: M.QPSKModulator(), lambda: M.QPSKDemodulator()),
            ("PSK8", 3, lambda: M.PSKModulator(order=8), lambda: M.PSKDemodulator(order=8)),
            ("QAM16", 4, lambda: M.QAMModulator(order=16), lambda: M.QAMDemodulator(order=16)),
            ("PAM4", 2, lambda: M.PAMModulator(order=4, gray_coding=False), lambda: M.PAMDemodulator(order=4, gray_coding=False)),
            ("QAM64", 6, lambda: M.QAMModulator(order=64, gray_coding=False, normalize=False), lambda: M.QAMDemodulator(order=64, gray_coding=False, normalize=False)),
            # the largest orders the modem property names, with the default Gray labeling (5, 6 and 8 bits per symbol: several blocks per row)
            ("PAM64g", 6, lambda: M.PAMModulator(order=64), lambda: M.PAMDemodulator(order=64)),
            ("PSK32g", 5, lambda: M.PSKModulator(order=32), lambda: M.PSKDemodulator(order=32)),
            ("QAM256g", 8, lambda: M.QAMModulator(order=256), lambda: M.QAMDemodulator(order=256)),
            # natural-binary labelling at orders above 4 (for two-bit labels the Gray map is its own inverse, so order 4 cannot tell a labelling slip)
            ("PSK8n", 3, lambda: M.PSKModulator(order=8, gray_coding=False), lambda: M.PSKDemodulator(order=8, gray_coding=False)),
            ("PSK16n", 4, lambda: M.PSKModulator(order=16, gray_coding=False), lambda: M.PSKDemodulator(order=16, gray_coding=False)),
            ("QAM16n", 4, lambda: M.QAMModulator(order=16, gray_coding=False), lambda: M.QAMDemodulator(order=16, gray_coding=False)),
            ("PAM8n", 3, lambda: M.PAMModulator(order=8, gray_coding=False, normalize=False), lambda: M.PAMDemodulator(order=8, gray_coding=False, normalize=False))]


def run(run):
    rng = random.Random(run.seed)
    quick = run.tier == "quick"
    run.rule = ("(code, decoder) x memoryless modem links x (message frames, fault placements: ideal, every single bit position, every pair for t=2, "
                "seeded triples, displacement < dmin/2); non-trivial = non-zero message or a non-empty fault; distinct by (link, frame, fault)")
    for (name, p1, p2, bps) in ([("hamming", 3, 0, 1), ("hamming", 3, 0, 2), ("repetition", 3, 0, 2), ("rm", 1, 3, 2)] if quick else
                                [("hamming", 3, 0, 1), ("hamming", 3, 0, 2), ("repetition", 3, 0, 2), ("spc", 3, 0, 3), ("rm", 1, 3, 2), ("hamming", 3, 1, 4), ("repetition", 5, 0, 2)]):
        cfg = ('CONSTANTS CodeName = "%s"\nP1 = %d\nP2 = %d\nBps = %d\nSPECIFICATION Spec\nCHECK_DEADLOCK FALSE\nINVARIANT Delivered\nINVARIANT FramesWholeSymbols\n'
               'PROPERTY Progress\n' % (name, p1, p2, bps))
        r = tlc.run("MC_Link", cfg, workers=16, timeout=1800)
        if not r.ok:
            raise tlc.TLCFailure("MC_Link %s: %s %s" % (name, r.errors, r.violated))
        run.add_tlc("MC_Link %s(%d,%d) bits/symbol=%d" % (name, p1, p2, bps), r)
    from kaira.channels import LambdaChannel, PerfectChannel
    from kaira.constraints import IdentityConstraint
    from kaira.models.channel_code import ChannelCodeModel
    evs, meta = [], []
    tid = 0
    for (cname, mkenc, dname, mkdec, iface, t, multi) in pairings(quick):
        for (mname, bps, mkmod, mkdem) in modems():
            enc = mkenc()
            n, k = int(enc.code_length), int(enc.code_dimension)
            blocks = bps // math.gcd(n, bps)
            cfg = {"code": cname, "decoder": dname, "modem": mname, "interface": iface, "blocks_per_row": blocks}
            if blocks > 1 and not multi:
                continue          # this encoder accepts exactly one block per row: only modems that frame whole symbols in one block match
            if quick and mname in ("QAM64", "PAM64g", "PSK32g", "QAM256g") and cname not in ("Hamming(7,4)", "LDPC(3x6)"):
                continue
            try:
                dec = mkdec(enc)
                mod, dem = mkmod(), mkdem()
                cap = {}
                fault = {"mode": "ideal"}
                mod2 = mkmod()
                pts = mod.constellation
                dmin = min(float(abs(pts[i] - pts[j])) for i in range(len(pts)) for j in range(i + 1, len(pts)))

                def chan(x, *a, **kw):
                    if fault["mode"] == "flip":
                        bits = (cap["enc"] + fault["flips"]) % 2
                        return mod2(bits)
                    if fault["mode"] == "displace":
                        return x + fault["v"]
                    return x
                model = ChannelCodeModel(encoder=enc, constraint=IdentityConstraint(), modulator=mod, channel=LambdaChannel(chan), demodulator=dem, decoder=dec)
                model.eval()
                _LINKS[0] += 1
                if _LINKS[0] % 3 == 0:
                    model.float()          # every third link after the precision protocol of nn.Module (a no-op for a float32 pipeline)
                    cfg["protocol"] = "model.float()"
                hooks = [enc.register_forward_hook(lambda m_, i, o: cap.__setitem__("enc", o.detach().clone())),
                         mod.register_forward_hook(lambda m_, i, o: cap.__setitem__("mod", o.detach().clone())),
                         dem.register_forward_hook(lambda m_, i, o: cap.__setitem__("dem", o.detach().clone()))]
            except Exception as ex:
                run.violate(dname, "link_construction_raised", cfg, {"error": repr(ex)[:200]})
                continue
            tid += 1
            evs.append({"ev": "Construct", "tid": tid, "n": n, "k": k, "G": [fec.limbs(r, n) for r in fec.mat_rows(enc.generator_matrix)] if hasattr(enc, "generator_matrix")
                        else [fec.limbs(fec.to_int(enc(torch.tensor([[1.0 if j == i else 0.0 for j in range(k)]]))[0]) ^ fec.to_int(enc(torch.zeros(1, k))[0]), n) for i in range(k)],
                        "t": t})
            meta.append((cfg, None))
            affine = not hasattr(enc, "generator_matrix")
            zero_cw = fec.to_int(enc(torch.zeros(1, k))[0]) if affine else 0
            # frames: (rows, blocks*k)
            cases = []
            allm = list(range(1 << k)) if k <= 4 else [rng.randrange(1 << k) for _ in range(12)]
            frames = [[m] * blocks for m in (allm if not quick else allm[:8])] + [[rng.randrange(1 << k) for _ in range(blocks)] for _ in range(4)]
            cases.append(("ideal", frames, None))
            if iface == "hard" and t >= 1:
                pats = [1 << p for p in range(n)]
                if t >= 2:
                    pairs = [(1 << a) | (1 << b_) for a, b_ in itertools.combinations(range(n), 2)]
                    pats += pairs if (len(pairs) <= 120 and not quick) else rng.sample(pairs, min(len(pairs), 25))
                if t >= 3:
                    pats += [sum(1 << p for p in rng.sample(range(n), 3)) for _ in range(10 if quick else 80)]
                fl_frames = [[rng.randrange(1 << k) for _ in range(blocks)] for _ in pats]
                cases.append(("flip", fl_frames, [[p if j == i % blocks else (rng.choice(pats) if rng.random() < 0.5 else 0) for j in range(blocks)] for i, p in enumerate(pats)]))
            dis_frames = [[rng.randrange(1 << k) for _ in range(blocks)] for _ in range(6 if quick else 40)]
            cases.append(("displace", dis_frames, None))
            for (mode, frs, flips) in cases:
                for fi, fr in enumerate(frs):
                    X = torch.cat([fec.from_int(m, k) for m in fr]).unsqueeze(0)
                    fl = [0] * blocks
                    fault["mode"] = mode
                    if mode == "flip":
                        fl = flips[fi]
                        fault["flips"] = torch.cat([fec.from_int(p, n) for p in fl]).unsqueeze(0)
                    if mode == "displace":
                        nsym = blocks * n // bps
                        ang = torch.tensor([rng.uniform(0, 2 * math.pi) for _ in range(nsym)])
                        rad = 0.45 * dmin
                        fault["v"] = torch.complex(rad * torch.cos(ang), rad * torch.sin(ang)).unsqueeze(0)
                    cap.clear()
                    ev = {"ev": "Link", "msgs": [fec.limbs(m, k) for m in fr], "flips": [fec.limbs(p, n) for p in fl], "cws": [], "rx": [], "outs": [], "nsym": 0, "bps": bps,
                          "raised": False, "mode": mode, "error": ""}
                    try:
                        for o in (mod, dem, mod2):
                            if hasattr(o, "reset_state"):
                                o.reset_state()
                        # the same frame through different call forms: float / integer (int64, uint8, bool) message tensors, noise variance as float, fraction, 0-dim tensor, by keyword or position
                        var = fi % 4
                        Xc = (X.long() if _LINKS[0] % 3 == 0 else (X.to(torch.uint8) if _LINKS[0] % 3 == 1 else X.bool())) if var == 1 else (X.double() if var == 3 and iface == "hard" else X)
                        nvc = (1.0, 0.25, torch.tensor(0.5), 4)[var]
                        # the noise variance as a positional extra instead of a keyword - for links all of whose stages take a second positional
                        # argument as `noise_var` or as *args (a stage whose second parameter means something else is outside this call form)
                        positional = (var == 2 or (var == 0 and fi >= 4))
                        ev["call"] = "%s/%s%s" % (str(Xc.dtype).replace("torch.", ""), "-" if iface == "hard" else repr(nvc), " positional" if positional and iface != "hard" else "")
                        try:
                            out = model(Xc) if iface == "hard" else (model(Xc, nvc) if positional else model(Xc, noise_var=nvc))
                        except Exception:
                            if Xc.dtype == X.dtype:
                                raise
                            # a link may reject a non-float message tensor (the property does not promise integer messages): only a wrong answer counts
                            ev["call"] += " rejected -> float32"
                            cap.clear()
                            for o in (mod, dem, mod2):
                                if hasattr(o, "reset_state"):
                                    o.reset_state()
                            out = model(X) if iface == "hard" else model(X, noise_var=nvc)
                        if not torch.is_tensor(out):
                            raise TypeError("the link returned %s, not the message tensor" % type(out).__name__)
                        encw = cap["enc"].reshape(blocks, n)
                        ev["cws"] = [fec.limbs(fec.to_int(encw[j]) ^ zero_cw, n) for j in range(blocks)]
                        ev["nsym"] = int(cap["mod"].shape[-1])
                        dm = cap["dem"].reshape(blocks, n)
                        hardbits = dm if iface == "hard" else (dm < 0).float()
                        ev["rx"] = [fec.limbs(fec.to_int(hardbits[j]) ^ zero_cw, n) for j in range(blocks)]
                        o2 = out.reshape(blocks, k)
                        ev["outs"] = [fec.limbs(fec.to_int(o2[j]), k) for j in range(blocks)]
                    except Exception as ex:
                        ev["raised"] = True
                        ev["error"] = repr(ex)[:120]
                    tid += 1
                    ev["tid"] = tid
                    evs.append(ev)
                    meta.append((cfg, ev))
                    run.case((cname, dname, mname, mode, tuple(fr), tuple(fl)), nontrivial=any(fr) or any(fl))
            # several frames in one call (a batch of rows, each holding `blocks` codewords) over the ideal channel: every row must come back as
            # it does alone - rows must not be mixed up when a decoder re-assembles its blocks
            try:
                rows_fr = [fr for (mode, frs, _) in cases if mode == "ideal" for fr in frs][:6]
                if len(rows_fr) >= 2:
                    fault["mode"] = "ideal"
                    cap.clear()
                    for o in (mod, dem, mod2):
                        if hasattr(o, "reset_state"):
                            o.reset_state()
                    Xb = torch.stack([torch.cat([fec.from_int(m, k) for m in fr]) for fr in rows_fr])
                    three_d = len(rows_fr) % 2 == 0 and _LINKS[0] % 2 == 0
                    if three_d:
                        Xb = Xb.reshape(2, len(rows_fr) // 2, -1)        # every other link: two leading dimensions (batch, frames, bits)
                    ob = model(Xb) if iface == "hard" else model(Xb, noise_var=1.0)
                    if three_d:
                        _THREE_D.append((cname, dname, mname))


                    ob = ob.reshape(len(rows_fr), blocks, k)
                    encb = cap["enc"].reshape(len(rows_fr), blocks, n)
                    demb = cap["dem"].reshape(len(rows_fr), blocks, n)
                    hb = demb if iface == "hard" else (demb < 0).float()
                    for r, fr in enumerate(rows_fr):
                        run.case((cname, dname, mname, "ideal-batched", tuple(fr), r), nontrivial=True)
                        outs_r = [fec.limbs(fec.to_int(ob[r, j]), k) for j in range(blocks)]
                        if outs_r != [fec.limbs(m, k) for m in fr]:
                            tid += 1
                            ev = {"ev": "Link", "tid": tid, "msgs": [fec.limbs(m, k) for m in fr], "flips": [fec.limbs(0, n)] * blocks,
                                  "cws": [fec.limbs(fec.to_int(encb[r, j]) ^ zero_cw, n) for j in range(blocks)], "rx": [fec.limbs(fec.to_int(hb[r, j]) ^ zero_cw, n) for j in range(blocks)],
                                  "outs": outs_r, "nsym": int(cap["mod"].shape[-1]), "bps": bps, "raised": False, "mode": "ideal", "error": "", "call": "batch of %d rows%s, row %d" % (len(rows_fr), " as (2, %d, bits)" % (len(rows_fr) // 2) if three_d else "", r)}
                            evs.append(ev)
                            meta.append((cfg, ev))
            except Exception:
                pass            # a link may reject a batch of rows; a wrong answer counts
            for h in hooks:
                h.remove()
    run.log("%d events" % len(evs))
    mism = tv.validate(run, "Trace_Link", evs, name="TV C09", timeout=3000, heap="12g")
    run.extra["links_fed_three_dimensional_messages"] = len(_THREE_D)
    run.extra["links_called_with_positional_noise_variance"] = sum(1 for e in evs if "positional" in str(e.get("call", "")))
    seen = set()
    for (t_, line, clause) in mism:
        cfg, e = meta[line - 1]
        key = (cfg["code"], cfg["decoder"], cfg["modem"], clause, e["mode"] if e else "")
        if key in seen:
            continue
        seen.add(key)
        c2 = dict(cfg, mode=e["mode"] if e else "")
        run.violate(cfg["decoder"], clause, c2, e, "Link rejected by Trace_Link clause %s" % clause)
    run.sample(next(e for e in evs if e["ev"] == "Link" and e["mode"] == "ideal"))
    fl = [e for e in evs if e["ev"] == "Link" and e["mode"] == "flip"]
    if fl:
        run.sample(fl[len(fl) // 2])
    if not mism and not run.only:
        def corrupt(ev2):
            i = next(i for i, e in enumerate(ev2) if e["ev"] == "Link" and not e["raised"])
            ev2[i]["outs"] = [[ev2[i]["outs"][0][0] ^ 1]] + ev2[i]["outs"][1:]
            return i + 1
        ok, msg = tv.selftest_binding("Trace_Link", evs[:20], corrupt, "link_returns_the_message")
        if not ok:
            raise tlc.TLCFailure("binding self-test failed: " + msg)
        run.extra["binding_selftest"] = "flipping one delivered bit is rejected at that line"
    run.assumptions += ["memoryless modems only (differential / offset schemes change the frame length, so their interfaces do not match a block decoder)",
                        "polar codes are affine when the frozen value is 1: stage words are compared after removing the all-zero-message codeword"]
