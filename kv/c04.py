"""C04 - encoding followed by the encoder's own message extraction is the identity, blockwise, for any layout.

TV : per catalogue object: Invert events (message -> encode -> inverse_encode / extract_message / project_word),
     Layout events (1-D, (B,.), (B1,B2,.), b = 1..4 blocks along the last dimension, for encoding and for inversion) and
     Reject events (last dimension not a multiple of the block size must raise); validated by Trace_BlockCode, which
     recomputes every block with Enc(m, G) from the published generator matrix.
MC : the GF(2) oracle is the one checked by MC_GF2 (see C01); the shape law is part of Trace_BlockCode.Layout.
"""
import random

import torch

from . import c01, fec, tlc, tv

LEVEL = "model_checking"
METHODS = ("inverse_encode", "extract_message", "project_word")


def _first(res):
    return res[0] if isinstance(res, tuple) else res


def _blocks(t, size):
    flat = t.reshape(-1, size)
    return [fec.to_int(flat[i]) for i in range(flat.shape[0])]


def object_events(entry, enc, tid0, rng, quick, run):
    n, k = int(enc.code_length), int(enc.code_dimension)
    evs = [fec.construct_event(entry, enc, tid0)]
    tid = tid0
    if k <= (8 if quick else 12):
        msgs = list(range(1 << k))
    else:
        msgs = [0, (1 << k) - 1] + [1 << i for i in range(k)] + [rng.randrange(1 << k) for _ in range(40 if quick else 300)]
    M = torch.stack([fec.from_int(m, k) for m in msgs])
    try:
        C = enc(M)
    except Exception as e:
        run.violate(entry.component, "encoder_raised", entry.config(), {"object": entry.name, "error": repr(e)})
        return evs, tid
    for meth in METHODS:
        f = getattr(enc, meth, None)
        if f is None:
            continue
        raised, out, syn = False, None, None
        try:
            res = f(C)
            out = _first(res)
            syn = res[1] if isinstance(res, tuple) and len(res) > 1 else None
            if out.shape != (len(msgs), k):
                raised = True
        except Exception as e:
            # batched call refused: try one by one before calling it a rejection
            try:
                outs, syns = [], []
                for i in range(len(msgs)):
                    r1 = f(C[i])
                    outs.append(_first(r1).reshape(-1))
                    if isinstance(r1, tuple) and len(r1) > 1:
                        syns.append(r1[1].reshape(-1))
                out = torch.stack(outs)
                syn = torch.stack(syns) if syns else None
            except Exception:
                raised = True
        for i, m in enumerate(msgs):
            tid += 1
            ev = {"ev": "Invert", "tid": tid, "method": meth, "m": fec.limbs(m, k), "raised": raised,
                  "mhat": fec.limbs(fec.to_int(out[i]), k) if not raised else [0],
                  "syn_zero": bool((syn[i] == 0).all()) if (syn is not None and not raised) else True}
            evs.append(ev)
            run.case((entry.name, meth, m), nontrivial=m != 0)
    # the same round trip with the message tensor in other forms: a leaf that requires grad, a dense transposed view, a strided view; a form may be
    # rejected, but a message that comes back different is logged as one more Invert event
    from .core import noncontiguous, transposed_view
    subs = list(range(len(msgs))) if len(msgs) <= 16 else [0, 1, 2, len(msgs) // 2, len(msgs) - 1] + rng.sample(range(len(msgs)), 6)
    forms = [("requires_grad", M[subs].clone().requires_grad_(True), None), ("transposed view", transposed_view(M[subs]), None), ("strided view", noncontiguous(M[subs]), None)]
    # ... and the codewords handed to the inverse as other dtypes (a method may reject a dtype; a different message counts)
    forms += [("codeword as %s" % str(dt).replace("torch.", ""), M[subs], dt) for dt in (torch.float64, torch.int64, torch.uint8, torch.int8, torch.bool, torch.float16, torch.bfloat16)]
    for kind, Mf, cdt in forms:
        try:
            Cf = enc(Mf)
            if cdt is not None:
                Cf = Cf.detach().to(cdt)
        except Exception:
            continue
        for meth in METHODS:
            f = getattr(enc, meth, None)
            if f is None:
                continue
            try:
                res = f(Cf.detach() if kind != "requires_grad" else Cf)
                outf = _first(res).detach().to(torch.float32)
                synf = res[1].detach() if isinstance(res, tuple) and len(res) > 1 and torch.is_tensor(res[1]) else None
                if outf.shape != (len(subs), k):
                    continue
            except Exception:
                continue
            for j, i in enumerate(subs):
                run.case((entry.name, meth, msgs[i], kind), nontrivial=msgs[i] != 0)
                mh = fec.to_int(outf[j])
                sz = bool((synf[j] == 0).all()) if synf is not None else True
                if mh != msgs[i] or not sz:
                    tid += 1
                    evs.append({"ev": "Invert", "tid": tid, "method": meth, "m": fec.limbs(msgs[i], k), "raised": False, "mhat": fec.limbs(mh, k), "syn_zero": sz, "form": kind})
    # layouts
    layouts = []
    for b in (1, 2, 3, 4):
        layouts += [(b * 1,), (2, b), (2, 3, b)] if False else [((), b), ((3,), b), ((2, 2), b)]
    if quick:
        layouts = [l for l in layouts if l[1] in (1, 3) or l[0] == ()]
    layouts += [((1,), 1), ((1,), 2), ((1, 1), 3)]         # batches of one: the leading axes must survive
    for lead, b in layouts:
        nb = 1
        for d in lead:
            nb *= d
        nb *= b
        ms = [rng.randrange(1 << k) for _ in range(nb)]
        X = torch.stack([fec.from_int(m, k) for m in ms]).reshape(*lead, b * k)
        tid += 1
        ev = {"ev": "Layout", "tid": tid, "op": "encode", "shape_in": list(X.shape), "shape_out": [], "ins": [fec.limbs(m, k) for m in ms],
              "outs": [], "raised": False}
        Y = None
        try:
            Y = enc(X)
            ev["shape_out"] = list(Y.shape)
            if Y.shape[-1] % n == 0 and Y.numel() == nb * n:
                ev["outs"] = [fec.limbs(c, n) for c in _blocks(Y, n)]
        except Exception as e:
            ev["raised"] = True
            ev["error"] = repr(e)[:120]
        evs.append(ev)
        run.case((entry.name, "layout-enc", lead, b), nontrivial=True)
        # the same messages as float64 / int64 tensors: an encoder may reject the dtype, but an answer must be the same codewords
        for dt in (torch.float64, torch.int64):
            try:
                Yv = enc(X.to(dt))
            except Exception:
                continue
            run.case((entry.name, "layout-enc", lead, b, str(dt)), nontrivial=True)
            same = Y is not None and tuple(Yv.shape) == tuple(Y.shape) and torch.equal(Yv.to(torch.float64), Y.to(torch.float64))
            if not same:
                tid += 1
                ev3 = {"ev": "Layout", "tid": tid, "op": "encode", "shape_in": list(X.shape), "shape_out": list(Yv.shape), "ins": [fec.limbs(m, k) for m in ms],
                       "outs": [], "raised": False, "dtype": str(dt).replace("torch.", "")}
                if Yv.shape[-1] % n == 0 and Yv.numel() == nb * n and bool(((Yv == 0) | (Yv == 1)).all()):
                    ev3["outs"] = [fec.limbs(c, n) for c in _blocks(Yv.to(torch.float32), n)]
                evs.append(ev3)
        if Y is None or not ev["outs"]:
            continue
        for meth in METHODS:
            f = getattr(enc, meth, None)
            if f is None:
                continue
            tid += 1
            ev2 = {"ev": "Layout", "tid": tid, "op": "invert", "method": meth, "shape_in": list(Y.shape), "shape_out": [],
                   "ins": ev["outs"], "outs": [], "raised": False}
            try:
                Z = _first(f(Y))
                ev2["shape_out"] = list(Z.shape)
                if Z.shape[-1] % k == 0 and Z.numel() == nb * k:
                    ev2["outs"] = [fec.limbs(m, k) for m in _blocks(Z, k)]
            except Exception as e:
                ev2["raised"] = True
                ev2["error"] = repr(e)[:120]
            evs.append(ev2)
            run.case((entry.name, "layout-inv", meth, lead, b), nontrivial=True)
    # rejection of lengths that are not a multiple of the block size - also when the TOTAL element count of a batched input is a
    # multiple (rows must not be glued together), and for 1-D and 3-D inputs
    def bad_shapes(blk):
        out = [(2, L) for L in sorted({blk + 1, 2 * blk - 1, 2 * blk + 1}) if L % blk]
        out += [(blk, blk + 1), (blk + 1,), (2 * blk - 1,)]
        if blk % 2 == 0:
            out += [(2, blk // 2), (2, 3 * blk // 2), (2, 1, blk // 2), (4, 2, blk // 2)]
        if blk % 3 == 0:
            out += [(3, blk // 3), (3, 2 * blk // 3)]
        out += [(blk, 1), (2, blk, 1)]
        return [sh for sh in out if sh[-1] % blk != 0 and sh[-1] > 0]
    if k > 1:
        for sh in bad_shapes(k):
            tid += 1
            raised = False
            try:
                enc(torch.zeros(sh))
            except Exception:
                raised = True
            evs.append({"ev": "Reject", "tid": tid, "op": "encode", "last": sh[-1], "block": k, "raised": raised, "shape": list(sh)})
    for meth in METHODS:
        f = getattr(enc, meth, None)
        if f is None or n == 1:
            continue
        for sh in bad_shapes(n):
            tid += 1
            raised = False
            try:
                f(torch.zeros(sh))
            except Exception:
                raised = True
            evs.append({"ev": "Reject", "tid": tid, "op": meth, "last": sh[-1], "block": n, "raised": raised, "shape": list(sh)})
    return evs, tid


def run(run):
    rng = random.Random(run.seed)
    quick = run.tier == "quick"
    run.rule = ("catalogue objects x (all messages for small k, seeded above) x inverse methods, plus layouts 1-D/(B,.)/(B1,B2,.) with "
                "1..4 blocks and non-multiple lengths; non-trivial = non-zero message or any layout; distinct by (object, method, case)")
    cat = fec.catalogue(run.tier, rng)
    if run.only:
        cat = [e for e in cat if e.config() == run.only.get("config")]
    run.log("catalogue: %d objects" % len(cat))
    events, owners = c01.collect(run, cat, rng, quick, object_events)
    run.log("%d events recorded" % len(events))
    mism = tv.validate_sharded(run, "Trace_BlockCode", events, (lambda e: e["ev"] == "Construct"), name="TV C04", max_events=30000, jobs=8)
    run.traces -= 1        # traces are counted per constructed object below
    run.traces += len(cat)
    seen = set()
    for m in mism:
        t, line, clause = m[0], m[1], m[2]
        ev = events[line - 1]
        if ev["ev"] == "Construct":
            continue
        entry = owners[line - 1]
        meth = ev.get("method", ev.get("op", ""))
        key = (entry.name, clause, meth)
        if key in seen:
            continue
        seen.add(key)
        cfg = entry.config()
        cfg["method"] = meth
        run.violate(entry.component, clause, cfg, {"object": entry.name, "event": {k: v for k, v in ev.items() if k not in ("ins", "outs") or len(v) <= 4}},
                    "%s rejected by Trace_BlockCode clause %s" % (ev["ev"], clause))
    run.sample(next(e for e in events if e["ev"] == "Invert" and e["m"] != [0]))
    run.sample(next(e for e in events if e["ev"] == "Layout"))
    if not run.only and not [m for m in mism if m[1] <= 30]:        # the self-test slice (the first 30 events) was accepted
        def corrupt(ev2):
            i = next(i for i, e in enumerate(ev2) if e["ev"] == "Invert" and not e["raised"])
            ev2[i]["mhat"] = [ev2[i]["mhat"][0] ^ 1] + ev2[i]["mhat"][1:]
            return i + 1
        ok, msg = tv.selftest_binding("Trace_BlockCode", events[:30], corrupt, "inverse_returns_the_message")
        if not ok:
            raise tlc.TLCFailure("binding self-test failed: " + msg)
        run.extra["binding_selftest"] = "flipping one bit of one extracted message is rejected at that line"
    run.extra["objects"] = len(cat)
