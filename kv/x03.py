"""X03 (extended coverage, not a listed property) - UplinkMACChannel follows UplinkMac.tla.

MC : MC_UplinkMac (N = 2, 3): closed form y = (1 + s (N-1)) sum_i g_i x_i for every history of gain / interference updates and sends;
     silent users contribute nothing; the wrong design with self-interference must be rejected (vacuity guard).
GEN: every exported history is replayed on a real UplinkMACChannel whose user channels are recording identity channels (one per user, or one
     shared instance): after each send the received tensor is compared with the specification's value (exact dyadic arithmetic, 1e-5 relative
     tolerance for sqrt), and the call log must show every user's channel called once, in user order, with that user's signal.
"""
import math

import torch

from . import tlc

LEVEL = "model_checking"

CFG = '''CONSTANTS N = %d
Gains = {0, 2, 4, 6}
Scales = {0, 1, 2}
Signals <- SigSet
MaxLen = %d
Export = %s
Design = "%s"
SPECIFICATION Spec
CHECK_DEADLOCK FALSE
INVARIANT ClosedForm
INVARIANT SilentUsers
INVARIANT ExportInv
'''


def replay(N, h, shared, method):
    from kaira.channels import LambdaChannel, UplinkMACChannel
    log = []
    P = torch.tensor([[1.0, -2.0, 3.0], [0.5, 4.0, -1.0]])

    def rec(idx):
        def f(x, *a, **k):
            log.append((idx, x.clone()))
            return x
        return f
    if shared:
        ch = UplinkMACChannel(user_channels=LambdaChannel(rec(0)), num_users=N, combine_method=method)
    else:
        ch = UplinkMACChannel(user_channels=[LambdaChannel(rec(i + 1)) for i in range(N)], combine_method=method)
    for step, e in enumerate(h, start=1):
        op = e[0]
        if op == "gain":
            ch.update_user_gain(e[1] - 1, e[2] / 4.0)
        elif op == "interference":
            s = e[2] / 2.0
            ch.update_interference_power(s * s * (N - 1))
        else:
            xs = [P * float(v) for v in e[3]]
            del log[:]
            y = ch([x.clone() for x in xs])
            exp = P * (e[4] / 8.0)
            if tuple(y.shape) != tuple(P.shape) or not torch.allclose(y, exp, rtol=1e-5, atol=1e-6):
                return (step, "received_signal_is_the_gain_weighted_sum_plus_cross_interference", (e[4] / 8.0), [round(float(v), 6) for v in (y / P).reshape(-1)[:3]])
            if len(log) != N:
                return (step, "every_user_channel_called_once_per_send", N, len(log))
            for i, (idx, x) in enumerate(log):
                if (not shared and idx != i + 1) or not torch.equal(x, xs[i]):
                    return (step, "user_channels_called_in_user_order_with_their_own_signal", i + 1, idx)
    return None


def run(run):
    quick = run.tier == "quick"
    run.rule = "every history of length MaxLen over update_user_gain / update_interference_power / send, N = 2, 3 users; distinct by (N, variant, history)"
    g = tlc.run("MC_UplinkMac", CFG % (3, 3, "FALSE", "self"), workers=4, timeout=600)
    if g.ok or "ClosedForm" not in " ".join(g.violated):
        raise tlc.TLCFailure("vacuity guard: self-interference design not rejected (%s)" % (g.violated,))
    run.extra["vacuity_guard"] = "design 'self' (interference includes the user's own signal) violates ClosedForm"
    for N in (2, 3):
        ml = 3 if (quick or N == 3) else 4
        r = tlc.run("MC_UplinkMac", CFG % (N, ml, "TRUE", "others"), workers=1, timeout=1800, heap="12g")
        if not r.ok:
            raise tlc.TLCFailure("MC_UplinkMac N=%d: %s %s" % (N, r.errors, r.violated))
        run.add_tlc("MC_UplinkMac N=%d MaxLen=%d" % (N, ml), r)
        hs = [h[1] for h in r.tuples("UHIST")]
        if not hs:
            raise tlc.TLCFailure("no histories exported")
        bad = False
        for i, h in enumerate(hs):
            shared = i % 2 == 1
            method = "sum" if i % 4 < 2 else "weighted_sum"
            d = replay(N, h, shared, method)
            run.traces += 1
            run.case((N, shared, method, str(h)), nontrivial=True)
            if d and not bad:
                bad = True
                run.violate("UplinkMACChannel", d[1], {"N": N, "shared": shared, "combine_method": method},
                            {"history": h, "step": d[0], "expected": d[2], "observed": d[3]}, "history replay disagrees with UplinkMac.tla")
        run.sample({"N": N, "history": hs[len(hs) // 2]})
        run.log("N=%d: %d histories replayed" % (N, len(hs)))
    # binding demonstration: the self-interference design's histories must be rejected by the real channel
    r = tlc.run("MC_UplinkMac", CFG.replace("INVARIANT ClosedForm\n", "") % (2, 2, "TRUE", "self"), workers=1, timeout=600)
    hs = [h[1] for h in r.tuples("UHIST")]
    nbad = sum(1 for h in hs if replay(2, h, False, "sum"))
    if nbad == 0:
        raise tlc.TLCFailure("binding self-test failed: histories of the self-interference design were accepted")
    run.extra["binding_selftest"] = "%d of %d histories of the self-interference design are rejected by the replay" % (nbad, len(hs))
    run.assumptions += ["user channels are identities (the per-user channel laws are C07 / C13); gains in quarters, interference scale in halves: exact dyadic arithmetic"]
    run.exhaustive = True
