"""C13 - fading channels apply block-constant, correctly normalised gains: y = h.x + n.

MC  : MC_FlatFading - the block-index law i -> i div T partitions 0..L-1 into ceil(L/T) runs for every (L, T), including non-divisors.
TV  : Fading events. Exact structure on every case: with caller-supplied channel state and noise on Gaussian integers the output must equal
      h.x + n (complex integer arithmetic done by TLC); with unit input and zero noise the recovered gain is constant on {i : i div T = b} for
      every T in 1..L (TLC evaluates the partition law on the logged gain ids) and redrawn across blocks and batch items; the shape is preserved
      for 1-D, (B,L) and (B,C,H,W). Statistics (sensor): E|h|^2 and the Rician line-of-sight share on >= 10^6 blocks against a 7-sigma band; the
      noise stage relative to the faded signal as in C07.
"""
import math
import random

import torch
from .core import sint

from . import tlc, tv

LEVEL = "model_checking"


def gain_ids(h):
    """Quantise recovered gains to integer ids (equal values <-> equal ids)."""
    vals = {}
    out = []
    for z in h.tolist():
        key = (round(z.real, 5), round(z.imag, 5))
        if key not in vals:
            vals[key] = len(vals) + 1
        out.append(vals[key])
    return out


def base_event():
    return {"ev": "Fading", "shape_ok": True, "xs": [], "hs": [], "ns": [], "ys": [], "blocks": [], "T": 1, "distinct_required": 0, "gain_ppm": -1, "gain_band_ppm": 0,
            "k10": -1, "los_ppm": 0, "corr_ppm": 0, "icorr_ppm": 0, "corr_band_ppm": 0}


def run(run):
    rng = random.Random(run.seed)
    quick = run.tier == "quick"
    torch.manual_seed(run.seed)
    run.rule = ("(fading type, K, coherence time, sequence length, shape, real/complex) configurations: exact h.x+n cases on Gaussian integers, block-partition "
                "cases for every T in 1..L, shape cases, and gain statistics on 10^6 blocks; non-trivial = T does not divide L or L > T; distinct by configuration")
    r = tlc.run("MC_FlatFading", "CONSTANT MaxL = %d\nSPECIFICATION Spec\nCHECK_DEADLOCK FALSE\nINVARIANT PartitionLaw\n" % (12 if quick else 24), workers=8, timeout=600)
    if not r.ok:
        raise tlc.TLCFailure("MC_FlatFading: %s %s" % (r.errors, r.violated))
    run.add_tlc("MC_FlatFading", r)
    from kaira.channels import FlatFadingChannel, LogNormalFadingChannel, RayleighFadingChannel, RicianFadingChannel
    evs, meta = [], []
    tid = 0

    def add(e, comp, cfg):
        nonlocal tid
        tid += 1
        e["tid"] = tid
        evs.append(e)
        meta.append((comp, cfg))
    kinds = [("rayleigh", lambda T: RayleighFadingChannel(coherence_time=T, avg_noise_power=0.0), "RayleighFadingChannel", None),
             ("rician", lambda T: RicianFadingChannel(k_factor=3.0, coherence_time=T, avg_noise_power=0.0), "RicianFadingChannel", 3.0),
             ("lognormal", lambda T: LogNormalFadingChannel(shadow_sigma_db=4.0, coherence_time=T, avg_noise_power=0.0), "LogNormalFadingChannel", None),
             ("flat-rayleigh", lambda T: FlatFadingChannel("rayleigh", T, avg_noise_power=0.0), "FlatFadingChannel", None)]
    # --- exact y = h x + n with supplied csi and noise (Gaussian integers)
    for (kname, mk, comp, _) in kinds:
        for shape in ((6,), (1, 6), (2, 5), (1, 2, 3), (2, 1, 2, 3)):        # including batches of one: the batch axis must survive
            for cplx, dbl in ((False, False), (True, False), (False, True), (True, True)):
                n = 1
                for d in shape:
                    n *= d
                B = 1 if len(shape) == 1 else shape[0]
                L = n // B
                gi = lambda: rng.randint(-6, 6)
                xs = [[gi(), gi() if cplx else 0] for _ in range(n)]
                hs = [[gi(), gi()] for _ in range(n)]
                # double precision: the supplied noise carries integers beyond 2^24, which float64 / complex128 hold exactly and float32 does not
                big = 33554433 if dbl else 0
                ns = [[gi() + big, gi() - big] for _ in range(n)]
                cdt, rdt = (torch.complex128, torch.float64) if dbl else (torch.complex64, torch.float32)
                x = torch.tensor([complex(a, b) for a, b in xs], dtype=cdt).reshape(shape) if cplx else torch.tensor([float(a) for a, _ in xs], dtype=rdt).reshape(shape)
                csi = torch.tensor([complex(a, b) for a, b in hs], dtype=cdt).reshape(B, L)
                noise = torch.tensor([complex(a, b) for a, b in ns], dtype=cdt).reshape(B, L)
                e = base_event()
                cfg = {"fading": kname, "case": "exact", "ndim": len(shape), "complex": cplx, "precision": "double" if dbl else "single"}
                try:
                    y = mk(3)(x, csi=csi, noise=noise)
                    e["shape_ok"] = tuple(y.shape) == tuple(shape)
                    yl = y.reshape(-1).tolist()
                    e.update({"xs": xs, "hs": hs, "ns": ns, "ys": [[sint(z.real), sint(z.imag)] if abs(z.real - round(z.real)) < 1e-4 and abs(z.imag - round(z.imag)) < 1e-4 else [99999, 99999]
                                                                   for z in yl]})
                except Exception as ex:
                    run.violate(comp, "channel_raised", cfg, {"error": repr(ex)[:200]})
                    continue
                add(e, comp, cfg)
                run.case(("exact", kname, shape, cplx, dbl), nontrivial=True)
    # --- block constancy for every T in 1..L (unit input, zero noise: y is the gain)
    Ls = (7, 12) if quick else (5, 7, 12, 16, 30, 64, 100)
    for (kname, mk, comp, _) in kinds:
        for L in Ls:
            for T in range(1, L + 1):
                for shape in ((L,), (3, L)) + (((1, L),) if (T + L) % 2 == 0 else ()) + (((2, 1, 2, L // 2),) if (L % 2 == 0 and (T + L) % 3 == 0) else ()):
                    cfg = {"fading": kname, "case": "blocks", "L": L, "T": T, "ndim": len(shape), "divides": L % T == 0}
                    try:
                        if len(shape) == 2 and shape[0] == 3 and (T + L) % 4 == 1:
                            # the channel as a stage of a pipeline model that is called with a tensor extra (an SNR per item, as DeepJSCC models
                            # are): the extra is handed to every stage and is not the channel state
                            from kaira.models.generic import SequentialModel
                            cfg["route"] = "SequentialModel(x, snr tensor)"
                            y = SequentialModel(steps=[mk(T)])(torch.ones(shape), torch.full((shape[0], 1), 10.0))
                        elif (T + L) % 4 == 2:
                            with torch.no_grad():
                                y = mk(T)(torch.ones(shape))
                            cfg["route"] = "no_grad"
                        elif (T + L) % 4 == 3 and len(shape) >= 2:
                            import copy
                            from .core import transposed_view
                            y = copy.deepcopy(mk(T)).eval()(transposed_view(torch.ones(shape)))
                            cfg["route"] = "deepcopy + eval on a transposed view"
                        else:
                            y = mk(T)(torch.ones(shape))
                    except Exception as ex:
                        run.violate(comp, "channel_raised", cfg, {"error": repr(ex)[:200]})
                        continue
                    B = 1 if len(shape) == 1 else shape[0]
                    Lrow = L if len(shape) <= 2 else (shape[1] * shape[2] * shape[3])
                    rows = y.reshape(B, Lrow)
                    first = []
                    for b in range(B):
                        e = base_event()
                        e["shape_ok"] = tuple(y.shape) == tuple(shape)
                        e["blocks"] = gain_ids(rows[b])
                        e["T"] = T
                        e["distinct_required"] = (Lrow + T - 1) // T
                        add(e, comp, cfg)
                        first.append(complex(rows[b, 0]))
                        run.case(("blocks", kname, L, T, shape, b), nontrivial=T < L)
                    if B > 1:
                        e = base_event()
                        e["blocks"] = gain_ids(torch.tensor(first))
                        e["T"] = 1
                        e["distinct_required"] = B          # independent draws across batch items
                        add(e, comp, dict(cfg, case="batch_items"))
    # --- gain statistics on >= 10^6 blocks
    NB = 1000000
    for (kname, mk, comp, K) in kinds + [("rician", lambda T, K=K: RicianFadingChannel(k_factor=K, coherence_time=T, avg_noise_power=0.0), "RicianFadingChannel", K) for K in ((0.0, 1.0, 10.0, 100.0, 1, 5, 20) if not quick else (0.0, 10.0, 5, 100.0))]:      # K as float and as Python int (the documented form)
        if kname == "lognormal":
            continue        # unit mean-square gain is stated for Rayleigh and Rician fading only
        y = mk(1)(torch.ones(1000, NB // 1000))
        h = y.reshape(-1).to(torch.complex128)
        e = base_event()
        e["gain_ppm"] = sint(float((h.abs() ** 2).mean()) * 1e6)
        e["gain_band_ppm"] = int(7e6 / math.sqrt(NB)) + 50
        if K is not None:
            e["k10"] = sint(K * 10)
            e["los_ppm"] = sint(abs(complex(h.mean())) ** 2 * 1e6)
        add(e, comp, {"fading": kname, "case": "statistics", "K": K, "K_type": type(K).__name__})
        run.case(("stats", kname, K, type(K).__name__), nontrivial=True)
    # --- the configured K after the object has been through other routes: the attribute reassigned after a first use, and a freshly built
    #     channel that loads the state_dict of a channel built with another K (a checkpoint carries learned state, not the configuration)
    for route in ("k_factor reassigned after use", "state_dict of another K loaded"):
        K2 = 8.0
        if route.startswith("k_factor"):
            ch = RicianFadingChannel(k_factor=0.5, coherence_time=1, avg_noise_power=0.0)
            ch(torch.ones(4, 16))
            ch.k_factor = K2
        else:
            ch = RicianFadingChannel(k_factor=K2, coherence_time=1, avg_noise_power=0.0)
            try:
                ch.load_state_dict(RicianFadingChannel(k_factor=0.5, coherence_time=1, avg_noise_power=0.0).state_dict())
            except Exception:
                continue
        h = ch(torch.ones(1000, NB // 1000)).reshape(-1).to(torch.complex128)
        e = base_event()
        e["gain_ppm"] = sint(float((h.abs() ** 2).mean()) * 1e6)
        e["gain_band_ppm"] = int(7e6 / math.sqrt(NB)) + 50
        e["k10"] = sint(K2 * 10)
        e["los_ppm"] = sint(abs(complex(h.mean())) ** 2 * 1e6)
        add(e, "RicianFadingChannel", {"fading": "rician", "case": "statistics", "K": K2, "K_type": "float", "route": route})
        run.case(("stats", "rician", K2, route), nontrivial=True)
    # --- independence of the gains: log-power correlation between two blocks of one item, and between the same block of neighbouring items
    NI = 200000
    for (kname, mk, comp, K) in kinds:
        y = mk(1)(torch.ones(NI, 2))
        h = y.reshape(NI, 2).to(torch.complex128)
        lp = torch.log(h.abs() ** 2 + 1e-300)

        def corr(a, b):
            a = a - a.mean()
            b = b - b.mean()
            return float((a * b).mean() / torch.sqrt((a * a).mean() * (b * b).mean()))
        e = base_event()
        e["corr_ppm"] = sint(corr(lp[:, 0], lp[:, 1]) * 1e6)
        e["icorr_ppm"] = sint(corr(lp[:-1, 0], lp[1:, 0]) * 1e6)
        e["corr_band_ppm"] = int(7e6 / math.sqrt(NI)) + 500
        add(e, comp, {"fading": kname, "case": "independence"})
        run.case(("independence", kname), nontrivial=True)
    # --- noise stage relative to the faded signal (as C07): supply csi, let the channel draw the noise
    noise_evs = []
    for snr in (0.0, 10.0, 30.0):
        for cplx in (False, True):
            B, L = 100, 10000
            x = torch.complex(torch.randn(B, L), torch.randn(B, L)) if cplx else torch.randn(B, L)
            csi = torch.complex(torch.randn(B, L), torch.randn(B, L)) * 0.7
            ch = RayleighFadingChannel(coherence_time=5, snr_db=snr)
            y = ch(x, csi=csi)
            faded = csi * (x if cplx else torch.complex(x, torch.zeros_like(x)))
            nz = (y - faded).to(torch.complex128)
            sig = float((faded.abs() ** 2).mean())
            tid += 1
            noise_evs.append({"ev": "Noise", "tid": tid, "N": B * L * 2, "family": "gaussian", "noise_cdb": sint(1000 * math.log10(float((nz.abs() ** 2).mean()))),
                              "expected_cdb": sint(1000 * math.log10(sig) - 100 * snr), "mean_ppm": 99999999, "verbatim": -1, "scaling": -1, "shape_ok": tuple(y.shape) == (B, L)})
            meta.append(("RayleighFadingChannel", {"fading": "rayleigh", "case": "noise_stage", "snr_db": snr, "complex": cplx}))
            evs.append(noise_evs[-1])
            run.case(("noise-stage", snr, cplx), nontrivial=True)
    run.log("%d events" % len(evs))
    mism = tv.validate(run, "Trace_Channels", evs, name="TV C13", timeout=1800)
    seen = set()
    for (t, line, clause) in mism:
        comp, cfg = meta[line - 1]
        key = (comp, clause, cfg.get("case"), cfg.get("divides"), cfg.get("ndim"))
        if key in seen:
            continue
        seen.add(key)
        e = evs[line - 1]
        run.violate(comp, clause, cfg, {k: (v if not isinstance(v, list) else v[:40]) for k, v in e.items()}, "event rejected by Trace_Channels clause %s" % clause)
    run.sample({k: (v if not isinstance(v, list) else v[:12]) for k, v in evs[0].items()})
    run.sample(next(e for e in evs if e.get("blocks") and e["T"] == 5))
    run.extra["explanation"] = ("structure (h.x+n on Gaussian integers, block partition for every T, shapes) is decided exactly by TLC on every case; gain statistics are sensor "
                                "measurements on 10^6 blocks judged against a 7-sigma band")
    if not mism and not run.only:
        def corrupt(ev2):
            i = next(i for i, e in enumerate(ev2) if e["ev"] == "Fading" and len(e["blocks"]) >= 7 and 2 <= e["T"] <= 4)
            b = list(ev2[i]["blocks"])
            b[1] = max(b) + 1
            ev2[i]["blocks"] = b
            return i + 1
        ok, msg = tv.selftest_binding("Trace_Channels", evs[:120], corrupt, "gain_constant_within_coherence_block")
        if not ok:
            raise tlc.TLCFailure("binding self-test failed: " + msg)
        run.extra["binding_selftest"] = "changing the gain id of one sample inside a coherence block is rejected at that line"
    run.assumptions += ["distinct blocks / batch items draw distinct gains with probability 1 (continuous distributions, float32)", "7-sigma bands: per-run false-alarm < 1e-9"]
