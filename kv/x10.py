"""X10 (extended coverage, not a listed property) - BenchmarkResultsManager follows ResultStore.tla.

MC : MC_ResultStore: listings never show summaries, comparison reports or archived files and show every live result under the directory;
     a saved result stays live with its content until it is aged and archived; archiving loses nothing and is idempotent; the wrong design
     "nest" (files already under archives/ are archived again, one level deeper) must be rejected (vacuity guard).
GEN: every exported history (mutations save / save-suite / archive / compare - each writing step optionally aged by the driver - then one observation list / load) is replayed on a real
     manager in a scratch directory; after every step the directory tree (live result files with the result they hold, summaries and
     reports, archived files with their path below archives/) is compared with the specification's state, and the final listing / loaded
     result with the specification's answer.
"""
import json
import os
import shutil
import tempfile
import time

from . import tlc

LEVEL = "model_checking"

CFG = '''CONSTANTS Results = {"r1", "r2", "r3"}
FileOf <- FileOfDef
Cats = {%s}
Exps = {"-", "e1"}
Suites = {"s1"}
SuiteLists <- SuiteListsDef
MaxLen = %d
Export = %s
Design = "%s"
SPECIFICATION Spec
CHECK_DEADLOCK FALSE
INVARIANT ListLaw
INVARIANT SavedStaysUntilArchived
INVARIANT ArchiveKeepsEverything
INVARIANT ArchiveIdempotent
INVARIANT NothingOldSurvivesArchive
INVARIANT ExportInv
'''
RES = {"r1": ("aaaaaaaa1111", "bench a", 1), "r2": ("bbbbbbbb2222", "bench(b)", 2), "r3": ("aaaaaaaa3333", "bench a", 3)}
TOK = {1: "r1", 2: "r2", 3: "r3"}


def _result(r):
    from kaira.benchmarks.base import BenchmarkResult
    bid, name, tok = RES[r]
    return BenchmarkResult(benchmark_id=bid, name=name, description="", metrics={"token": tok, "success": True}, execution_time=0.5, timestamp="t")


def _fkey(f):
    return ("/".join(f[0]), f[1])


def _auxname(f):
    return ("/".join(f[0]), "cmp_comparison.json" if f[0] == ["comparisons"] else f[1])


def _tree(base):
    live, aux, arch = {}, set(), {}
    for root, _, files in os.walk(base):
        for fn in files:
            if not fn.endswith(".json"):
                continue
            rel = os.path.relpath(os.path.join(root, fn), base).split(os.sep)
            d, name = rel[:-1], rel[-1]
            try:
                data = json.load(open(os.path.join(root, fn)))
                tok = TOK.get(data.get("metrics", {}).get("token")) if isinstance(data.get("metrics"), dict) else None
            except Exception:
                tok = None
            is_aux = name == "summary.json" or name.endswith("_comparison.json")
            if d and d[0] == "archives":
                arch[("/".join(d[1:]), name)] = "aux" if is_aux else tok
            elif is_aux:
                aux.add(("/".join(d), name))
            else:
                live[("/".join(d), name)] = tok
    return live, aux, arch


def replay(h):
    from kaira.benchmarks.results_manager import BenchmarkResultsManager
    base = tempfile.mkdtemp(prefix="kvstore_")
    try:
        m = BenchmarkResultsManager(base)
        long_ago = time.time() - 40 * 86400
        for step, (op, a, res, liveset, auxset, archset) in enumerate(h, start=1):
            if op == "save":
                r, c, e, aged = a
                p = m.save_benchmark_result(_result(r), category=c, experiment_name=None if e == "-" else e, add_timestamp=False)
                rel = os.path.relpath(str(p), base).split(os.sep)
                if ("/".join(rel[:-1]), rel[-1]) != _fkey(res[0]):
                    return (step, "result_saved_under_category_experiment_and_sanitised_name", list(_fkey(res[0])), rel)
                if aged:
                    os.utime(str(p), (long_ago, long_ago))
            elif op == "suite":
                rs, s, e, aged = a
                saved = m.save_suite_results([_result(r) for r in rs], s, experiment_name=None if e == "-" else e)
                if aged:
                    for p in saved.values():
                        os.utime(str(p), (long_ago, long_ago))
            elif op == "archive":
                m.archive_old_results(30)
            elif op == "compare":
                paths = sorted(os.path.join(base, d, n) for (d, n) in (_fkey(x[0]) for x in liveset))
                p = m.create_comparison_report([__import__("pathlib").Path(p) for p in paths], "cmp")
                if a[1]:
                    os.utime(str(p), (long_ago, long_ago))
            elif op == "list":
                d = a[0]
                got = m.list_results(d[0] if len(d) >= 1 else None, d[1] if len(d) >= 2 else None)
                gotk = sorted(tuple(("/".join(os.path.relpath(str(p), base).split(os.sep)[:-1]), os.path.basename(str(p)))) for p in got)
                exp = sorted(_fkey(f) for f in res)
                if gotk != exp:
                    return (step, "listing_shows_exactly_the_live_results_under_the_directory", [list(x) for x in exp], [list(x) for x in gotk])
            elif op == "load":
                d, name = _fkey(a[0])
                r = m.load_benchmark_result(os.path.join(base, d, name))
                if TOK.get(r.metrics.get("token")) != res[0] or r.benchmark_id != RES[res[0]][0] or r.name != RES[res[0]][1]:
                    return (step, "loaded_result_is_the_one_saved_last_under_that_name", res[0], [r.benchmark_id, r.name, r.metrics])
            live, aux, arch = _tree(base)
            exp_live = {_fkey(x[0]): x[1] for x in liveset}
            exp_aux = {_auxname(x) for x in auxset}
            exp_arch = {}
            for x in archset:
                f = x[0]
                exp_arch[_auxname(f) if x[1] == "aux" else _fkey(f)] = x[1]
            if live != exp_live:
                return (step, "live_files_after_the_step_equal_the_specification", sorted(map(list, exp_live.items())), sorted(map(list, live.items())))
            if aux != exp_aux:
                return (step, "summaries_and_reports_after_the_step_equal_the_specification", sorted(map(list, exp_aux)), sorted(map(list, aux)))
            if arch != exp_arch:
                return (step, "archived_file_keeps_its_relative_path_under_archives", sorted(map(list, exp_arch.items())), sorted(map(list, arch.items())))
        return None
    finally:
        shutil.rmtree(base, ignore_errors=True)


def run(run):
    quick = run.tier == "quick"
    ml = 3
    run.rule = "every history of %d mutations (save / save-suite / archive / compare, fresh or aged) followed by one observation (list / load); distinct by history" % (ml - 1)
    g = tlc.run("MC_ResultStore", CFG % ('"benchmarks"', 4, "FALSE", "nest"), workers=8, timeout=900)
    if g.ok or not g.violated:
        raise tlc.TLCFailure("vacuity guard: design 'nest' not rejected")
    run.extra["vacuity_guard"] = "design 'nest' (archived files archived again, one level deeper) violates %s" % (g.violated,)
    r = tlc.run("MC_ResultStore", CFG % ('"benchmarks"' if quick else '"benchmarks", "experiments"', ml, "TRUE", "code"), workers=1, timeout=3000, heap="12g")
    if not r.ok:
        raise tlc.TLCFailure("MC_ResultStore: %s %s" % (r.errors, r.violated))
    run.add_tlc("MC_ResultStore MaxLen=%d" % ml, r)
    hs = [h[1] for h in r.tuples("SHIST")]
    if not hs:
        raise tlc.TLCFailure("no histories exported")
    seen = set()
    for h in hs:
        d = replay(h)
        run.traces += 1
        run.case((str([(x[0], x[1]) for x in h]),), nontrivial=True)
        if d and d[1] not in seen:
            seen.add(d[1])
            run.violate("BenchmarkResultsManager", d[1], {}, {"history": [[x[0], x[1]] for x in h], "step": d[0], "expected": d[2], "observed": d[3]},
                        "history replay disagrees with ResultStore.tla")
    run.sample({"history": [[x[0], x[1]] for x in hs[len(hs) // 2]]})
    run.log("%d histories replayed" % len(hs))
    run.assumptions += ["files are written without time stamps (add_timestamp=False) so that names are determined; ageing is a driver step (os.utime)"]
    run.exhaustive = True
