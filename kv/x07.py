"""X07 (extended coverage, not a listed property) - ErrorVectorMagnitude as a stateful metric follows EvmAccumulator.tla.

MC : MC_EvmAccumulator (normalised and not, with and without a threshold): the computed value depends only on the symbols seen since the last
     reset (not on how they were cut into batches), compute is pure, violations are counted per update and only with a threshold; the wrong
     design "noreset" must be rejected (vacuity guard).
GEN: every exported history is replayed on a real ErrorVectorMagnitude (real float32, float64 and complex64 symbols rotated by j): after every
     step the four state tensors are compared with the specification's integers, and every compute with 100 sqrt(num / den).
"""
import math

import torch

from . import tlc

LEVEL = "model_checking"

CFG = '''CONSTANTS Refs <- RefSet
Errs <- %s
Normalize = %s
Thr <- %s
MaxLen = %d
MaxBatch = 2
Export = %s
Design = "%s"
SPECIFICATION Spec
CHECK_DEADLOCK FALSE
INVARIANT BatchingInvariance
INVARIANT ViolationsBounded
INVARIANT NoThresholdNoViolations
INVARIANT ComputeIsPure
INVARIANT ExportInv
'''


def replay(h, normalize, thr, kind):
    from kaira.metrics.signal import ErrorVectorMagnitude
    m = ErrorVectorMagnitude(normalize=normalize, mode="rms", threshold=thr)
    for step, e in enumerate(h, start=1):
        op, b, st, val = e
        if op == "update":
            xs = torch.tensor([float(p[0]) for p in b])
            es = torch.tensor([float(p[1]) for p in b])
            if kind == "complex64":
                x, y = xs * 1j, (xs + es) * 1j
            elif kind == "float64":
                x, y = xs.double(), (xs + es).double()
            elif kind == "column":
                x, y = xs.reshape(-1, 1), (xs + es).reshape(-1, 1)
            else:
                x, y = xs, xs + es
            m.update(x, y)
        elif op == "reset":
            m.reset()
        else:
            v = float(m.compute())
            exp = 100.0 * math.sqrt(val[0] / val[1])
            if not abs(v - exp) <= 1e-4 * max(1.0, exp):
                return (step, "computed_value_is_100_sqrt_of_accumulated_error_over_reference", round(exp, 5), v)
        got = [float(m.sum_error_power), float(m.sum_reference_power), float(m.total), float(m.evm_violations)]
        if not normalize:
            got[1] = st[1]          # not used by compute when normalisation is off
        if any(not abs(g - s) <= 1e-6 for g, s in zip(got, st)):
            return (step, "accumulators_after_the_step_equal_the_specification", list(st), got)
    return None


def run(run):
    quick = run.tier == "quick"
    ml = 3 if quick else 4
    errs = "ErrSet" if quick else "ErrSet2"
    run.rule = "every history of length %d over update (batches of 1 or 2 symbols) / compute / reset, per (normalize, threshold, symbol type); distinct by (variant, history)" % ml
    g = tlc.run("MC_EvmAccumulator", CFG % ("ErrSet", "TRUE", "Thr60", 3, "FALSE", "noreset"), workers=4, timeout=600)
    if g.ok or not g.violated:
        raise tlc.TLCFailure("vacuity guard: design 'noreset' not rejected")
    run.extra["vacuity_guard"] = "design 'noreset' (reset keeps the accumulators) violates %s" % (g.violated,)
    for normalize in (True, False):
        for thr in (None, 60.0):
            r = tlc.run("MC_EvmAccumulator", CFG % (errs, "TRUE" if normalize else "FALSE", "Thr60" if thr else "NoThr", ml, "TRUE", "code"),
                        workers=1, timeout=3000, heap="12g")
            if not r.ok:
                raise tlc.TLCFailure("MC_EvmAccumulator %s %s: %s %s" % (normalize, thr, r.errors, r.violated))
            run.add_tlc("MC_EvmAccumulator normalize=%s threshold=%s MaxLen=%d" % (normalize, thr, ml), r)
            hs = [h[1] for h in r.tuples("EHIST")]
            if not hs:
                raise tlc.TLCFailure("no histories exported")
            bad = False
            for i, h in enumerate(hs):
                kind = ("float32", "complex64", "float64", "column")[i % 4]
                d = replay(h, normalize, thr, kind)
                run.traces += 1
                run.case((normalize, thr, kind, str(h)), nontrivial=True)
                if d and not bad:
                    bad = True
                    run.violate("ErrorVectorMagnitude", d[1], {"normalize": normalize, "threshold": thr, "symbols": kind},
                                {"history": h, "step": d[0], "expected": d[2], "observed": d[3]}, "history replay disagrees with EvmAccumulator.tla")
            run.sample({"normalize": normalize, "threshold": thr, "history": hs[len(hs) // 2]})
            run.log("normalize=%s threshold=%s: %d histories replayed" % (normalize, thr, len(hs)))
    r = tlc.run("MC_EvmAccumulator", CFG.replace("INVARIANT BatchingInvariance\n", "").replace("INVARIANT ViolationsBounded\n", "")
                % ("ErrSet", "TRUE", "Thr60", 3, "TRUE", "noreset"), workers=1, timeout=600)
    hs = [h[1] for h in r.tuples("EHIST")]
    nbad = sum(1 for h in hs if replay(h, True, 60.0, "float32"))
    if nbad == 0:
        raise tlc.TLCFailure("binding self-test failed: histories of the 'noreset' design were accepted")
    run.extra["binding_selftest"] = "%d of %d histories of the 'noreset' design are rejected by the replay" % (nbad, len(hs))
    run.assumptions += ["rms mode; integer symbols and errors so that the accumulators are exact in float32; the threshold (60 %) is never met exactly by a driver batch"]
    run.exhaustive = True
