"""C03 - the (n, k, d) and structure a code object advertises are its true parameters.

MC : MC_Families - the spec's own constructions of the families (Hamming from all non-zero columns, repetition, SPC,
     Reed-Muller by Plotkin, Golay / BCH from generator polynomials) have exactly the closed-form (n, k, d), are cyclic
     where they should be and meet the sphere-packing bound: the clauses are satisfiable and the formulas are right.
TV : one Construct + Advertise event per catalogue object; TLC computes the true minimum distance from the published
     generator matrix (enumeration for k <= 16; above that from the weight distribution of the dual - enumerated by the harness from the
     published generator matrix for n - k <= 20 - through the MacWilliams identity in modular arithmetic (MacWilliams.tla, checked on the
     specification's own dual pairs by MC_MacWilliams); column independence of H for d <= 5 otherwise), cyclic closure,
     divisibility by g(X) and the sphere-packing equality.
"""
import random

from . import c01, fec, tlc, tv

LEVEL = "model_checking"


def object_events(entry, enc, tid0, rng, quick, run):
    enum_k = 12 if quick else 16
    evs = [fec.construct_event(entry, enc, tid0), fec.advertise_event(entry, enc, tid0 + 1, enum_k)]
    run.case((entry.name,), nontrivial=int(enc.code_dimension) >= 1 and int(enc.code_length) > 1)
    # the advertised parameters describe the words the ENCODER produces, also when a row holds several messages (the documented (..., b*k) form):
    # every n-bit word of such an output is judged as an encoding of its own message
    import torch
    n, k = int(enc.code_length), int(enc.code_dimension)
    tid = tid0 + 1
    for b in (2, 3):
        ms = [rng.randrange(1 << k) for _ in range(b)]
        try:
            out = enc(torch.cat([fec.from_int(m, k) for m in ms]).unsqueeze(0)).reshape(-1)
        except Exception:
            continue
        if out.numel() != b * n:
            continue
        for j, m in enumerate(ms):
            tid += 1
            evs.append({"ev": "Encode", "tid": tid, "m": fec.limbs(m, k), "c": fec.limbs(fec.to_int(out[j * n:(j + 1) * n]), n), "blocks_per_row": b})
    return evs, tid


def mc_macwilliams(run):
    r = tlc.run("MC_MacWilliams", "SPECIFICATION Spec\nCHECK_DEADLOCK FALSE\nINVARIANT IdentityOK\n", workers=8, timeout=1800)
    if not r.ok:
        raise tlc.TLCFailure("MC_MacWilliams: %s %s\n%s" % (r.errors, r.violated, r.stdout[-2000:]))
    run.add_tlc("MC_MacWilliams (the modular MacWilliams transform agrees with enumeration on the specification's dual pairs)", r)


def mc_families(run, quick):
    cfg = "SPECIFICATION Spec\nCHECK_DEADLOCK FALSE\nINVARIANT FamilyOK\n"
    r = tlc.run("MC_Families", cfg, workers=8, timeout=1800)
    if not r.ok:
        raise tlc.TLCFailure("MC_Families: %s %s\n%s" % (r.errors, r.violated, r.stdout[-2000:]))
    run.add_tlc("MC_Families (spec constructions have the closed-form parameters)", r)


def run(run):
    rng = random.Random(run.seed)
    quick = run.tier == "quick"
    run.rule = ("one Advertise event per catalogue object (families x parameters x information sets); non-trivial = n > 1; "
                "distinct by object name")
    mc_families(run, quick)
    mc_macwilliams(run)
    fams = {"hamming", "golay", "repetition", "spc", "rm", "cyclic", "cyclic_named", "bch", "rs"}
    cat = fec.catalogue(run.tier, rng, families=fams, long_bch=True, all_divisors=True)
    if run.only:
        cat = [e for e in cat if e.config() == run.only.get("config")]
    run.log("catalogue: %d objects" % len(cat))
    events, owners = c01.collect(run, cat, rng, quick, object_events)
    mism = tv.validate_sharded(run, "Trace_BlockCode", events, (lambda e: e["ev"] == "Construct"), name="TV C03", max_events=40, jobs=10, heap="6g",
                                cost=(lambda e: max(1, 2 ** max(0, len(e.get("G", [])) - 8)) if e["ev"] == "Construct" else 1))
    run.traces -= 1        # traces are counted per constructed object below
    run.extra["objects_whose_distance_was_not_decided"] = len([p for p in getattr(run, "last_prints", []) if isinstance(p, list) and p and p[0] == "NOTCOVERED"])
    run.traces += len(cat)
    c03_clauses = None
    seen = set()
    for m in mism:
        t, line, clause = m[0], m[1], m[2]
        if events[line - 1]["ev"] == "Encode" and events[line - 1].get("blocks_per_row"):
            entry = owners[line - 1]
            if (entry.name, "multi") not in seen:
                seen.add((entry.name, "multi"))
                run.violate(entry.component, "words_of_a_multi_block_row_are_words_of_the_advertised_code", entry.config(),
                            {"object": entry.name, "event": events[line - 1]}, "a word the encoder produced for a row of several messages is not the encoding of its message")
            continue
        if events[line - 1]["ev"] != "Advertise":
            continue        # Construct clauses belong to C01
        if clause.startswith("harness_"):
            raise tlc.TLCFailure("sensor output rejected by the specification: %s at line %d" % (clause, line))
        entry = owners[line - 1]
        if (entry.name, clause) in seen:
            continue
        seen.add((entry.name, clause))
        ev = events[line - 1]
        run.violate(entry.component, clause, entry.config(), {"object": entry.name, "advertised": {k: ev[k] for k in ("d", "dexact", "rate6", "cyclic", "perfect")},
                                                             "n": events[line - 2]["n"], "k": events[line - 2]["k"]},
                    "Advertise rejected by Trace_BlockCode clause %s" % clause)
    run.sample(events[1])
    run.sample({"object": cat[len(cat) // 2].name, "event": events[2 * (len(cat) // 2) + 1]})
    if not run.only:
        # binding demonstrations on objects the specification accepted: one decided by enumeration, one through the MacWilliams route
        bad_lines = {m[1] for m in mism}

        def clean(i):
            return (i + 1) not in bad_lines and i not in bad_lines

        def corrupt(ev2):
            ev2[1]["d"] += 1
            return 2
        j = next((i for i, e in enumerate(events) if e["ev"] == "Advertise" and not e["dualB"] and e["d"] > 1 and events[i - 1]["k"] <= e["enum_k"] and clean(i)), None)
        if j is not None:
            ok, msg = tv.selftest_binding("Trace_BlockCode", events[j - 1:j + 1], corrupt)
            if not ok:
                raise tlc.TLCFailure("binding self-test failed: " + msg)
            run.extra["binding_selftest"] = "raising the advertised distance of %s by 1 is rejected at that line" % owners[j].name
        j = next((i for i, e in enumerate(events) if e["ev"] == "Advertise" and e["dualB"] and e["family"] == "bch" and e["params"] in ([5, 3], [5, 5], [5, 7]) and e["d"] == e["params"][1] and clean(i)), None)
        if j is not None:
            ok, msg = tv.selftest_binding("Trace_BlockCode", events[j - 1:j + 1], corrupt, "true_distance_at_least_advertised")
            if not ok:
                raise tlc.TLCFailure("binding self-test (MacWilliams route) failed on %s d=%s: %s" % (owners[j].name, events[j]["d"], msg))
            run.extra["binding_selftest_macwilliams"] = "raising the advertised distance of %s by 1 is rejected through the dual's weight distribution" % owners[j].name
    run.extra["objects"] = len(cat)
    run.assumptions += ["minimum distance decided exactly for k <= 16 (quick: 12), above that through the MacWilliams identity when n - k <= 20 (the dual's weight "
                        "distribution is a harness measurement on the published generator matrix, checked for well-formedness by the specification), "
                        "via H-column independence for d <= 5 and n-k <= 16 otherwise; "
                        "larger codes are reported NOTCOVERED by the specification, not assumed"]
