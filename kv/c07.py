"""C07 - additive-noise channels deliver exactly the configured noise power / SNR.

MC  : MC_NoiseLaw - the centi-dB law module: the integer square root and the acceptance bands are monotone, never overflow for N up to 2^31 / 1000,
      and the additive SNR identities compose (noise = signal - SNR, SNR = signal - noise).
TV  : Noise events (sensor): per (channel, parameterisation, real/complex, signal power, SNR, shape) the added noise y - f(x) of 10^6 samples is
      measured in centi-dB and ppm; Trace_Channels evaluates the law (power mode, SNR mode relative to the post-nonlinearity / faded signal,
      Laplacian scale mode per real component, complex = sum over components), the 7-sigma band and the zero-mean band. Exact clauses: caller-
      supplied noise added verbatim on integer tensors; same-seed noise scales exactly with sqrt(4^j). Conv events: the SNR utilities, the SNR
      metric and add_noise_for_snr agree with the additive law on a centi-dB grid (scalar and tensor arguments, tolerance 0.01 dB).
"""
import math
import random

import torch
from .core import sint

from . import tlc, tv

LEVEL = "other"


def cdb(p):
    p = float(p)
    if not math.isfinite(p):
        return 9999999          # inf / nan power: far outside every band - a verdict, not a machinery failure
    return sint(1000.0 * math.log10(max(p, 1e-300)))


_CALL = [0]


def run(run):
    rng = random.Random(run.seed)
    quick = run.tier == "quick"
    torch.manual_seed(run.seed)
    run.rule = ("(channel, parameterisation, real/complex, signal power, SNR / noise power, shape) configurations with 10^6 noise samples each, plus exact verbatim / "
                "same-seed-scaling cases and a centi-dB grid for the utilities; non-trivial = every configuration; distinct by configuration")
    r = tlc.run("MC_NoiseLaw", "SPECIFICATION Spec\nCHECK_DEADLOCK FALSE\nINVARIANT LawOK\n", workers=8, timeout=600)
    if not r.ok:
        raise tlc.TLCFailure("MC_NoiseLaw: %s %s" % (r.errors, r.violated))
    run.add_tlc("MC_NoiseLaw", r)
    from kaira.channels import AWGNChannel, LaplacianChannel, NonlinearChannel
    from kaira.metrics.signal import SignalToNoiseRatio
    from kaira.utils import snr as U
    evs, meta = [], []
    tid = 0

    def add(e, comp, cfg):
        nonlocal tid
        tid += 1
        e["tid"] = tid
        evs.append(e)
        meta.append((comp, cfg))
    N = 1000000
    shapes = [(N,), (1000, 1000), (10, 10, 100, 100), (1, N)]
    sig_pows = [1e-3, 1.0, 1e3]
    snrs = [-30.0, -20.0, -10.0, 0.0, 5.0, 10.0, 20.0, 30.0, 40.0] if not quick else [-20.0, 0.0, 10.0, 40.0]      # 0 dB included: a falsy parameter value
    ci = 0

    def signal(cplx, power, shape, fam="gaussian"):
        if fam == "constant_modulus":        # BPSK / QPSK-like: every sample has the same magnitude
            if cplx:
                x = torch.complex(torch.sign(torch.randn(shape)), torch.sign(torch.randn(shape))) * math.sqrt(power / 2)
            else:
                x = torch.sign(torch.randn(shape)) * math.sqrt(power)
            return x
        if fam == "sparse":                  # one sample in 16 carries the power
            mask = (torch.rand(shape) < 1 / 16).float()
            base = signal(cplx, power * 16, shape)
            return base * mask
        if cplx:
            x = torch.complex(torch.randn(shape), torch.randn(shape)) * math.sqrt(power / 2)
        else:
            x = torch.randn(shape) * math.sqrt(power)
        return x

    def measure(noise, nreal):
        nz = noise.to(torch.complex128) if noise.is_complex() else noise.double()
        p = float((nz.abs() ** 2).mean())
        m = complex(nz.mean()) if noise.is_complex() else float(nz.mean())
        return p, sint(abs(m) / math.sqrt(max(p, 1e-300)) * 1e6) if math.isfinite(p) else 99999998
    chans = []
    for cplx in (False, True):
        for P in ((1e-3, 0.5, 40.0) if quick else (1e-4, 1e-3, 0.5, 1.0, 40.0, 1e3)):
            chans.append(("AWGNChannel", "power", cplx, P, lambda P=P: AWGNChannel(avg_noise_power=P), "gaussian", None))
            chans.append(("LaplacianChannel", "power", cplx, P, lambda P=P: LaplacianChannel(avg_noise_power=P), "laplacian", None))
            chans.append(("NonlinearChannel", "power", cplx, P, lambda P=P: NonlinearChannel(torch.tanh, add_noise=True, avg_noise_power=P, complex_mode="cartesian"), "gaussian", "tanh"))
        # the same parameters given as Python int and as tensor
        chans.append(("AWGNChannel", "power", cplx, 2, lambda: AWGNChannel(avg_noise_power=2), "gaussian", None))
        chans.append(("AWGNChannel", "power", cplx, 0.25, lambda: AWGNChannel(avg_noise_power=torch.tensor(0.25)), "gaussian", None))
        chans.append(("LaplacianChannel", "power", cplx, 3, lambda: LaplacianChannel(avg_noise_power=3), "laplacian", None))
        chans.append(("LaplacianChannel", "scale", cplx, 1, lambda: LaplacianChannel(scale=1), "laplacian", None))
        chans.append(("AWGNChannel", "snr", cplx, 7, lambda: AWGNChannel(snr_db=7), "gaussian", None))
        chans.append(("LaplacianChannel", "snr", cplx, 7, lambda: LaplacianChannel(snr_db=7), "laplacian", None))
        for sc in ((0.05, 2.0) if quick else (0.05, 0.5, 2.0, 30.0)):
            chans.append(("LaplacianChannel", "scale", cplx, sc, lambda sc=sc: LaplacianChannel(scale=sc), "laplacian", None))
        if cplx:
            # the other complex modes of the nonlinear channel: the SNR refers to the signal that enters the noise stage, i.e. to f(x)
            soft = (lambda m: m / torch.sqrt(1 + m * m))
            for snr in (10.0, 30.0):
                chans.append(("NonlinearChannel", "snr", True, snr, lambda snr=snr: NonlinearChannel(soft, add_noise=True, snr_db=snr, complex_mode="polar"), "gaussian", "polar_soft"))
                chans.append(("NonlinearChannel", "snr", True, snr, lambda snr=snr: NonlinearChannel(lambda v: 0.5 * v, add_noise=True, snr_db=snr, complex_mode="direct"), "gaussian", "direct_half"))
            chans.append(("NonlinearChannel", "power", True, 0.5, lambda: NonlinearChannel(soft, add_noise=True, avg_noise_power=0.5, complex_mode="polar"), "gaussian", "polar_soft"))
        for snr in snrs:
            chans.append(("AWGNChannel", "snr", cplx, snr, lambda snr=snr: AWGNChannel(snr_db=snr), "gaussian", None))
            chans.append(("LaplacianChannel", "snr", cplx, snr, lambda snr=snr: LaplacianChannel(snr_db=snr), "laplacian", None))
            chans.append(("NonlinearChannel", "snr", cplx, snr, lambda snr=snr: NonlinearChannel(torch.tanh, add_noise=True, snr_db=snr, complex_mode="cartesian"), "gaussian", "tanh"))
    tools = []
    for (comp, mode, cplx, val, mk, family, nl) in chans:
        pows = sig_pows if mode == "snr" else [1.0]
        if quick and mode == "snr":
            pows = [sig_pows[ci % 3], sig_pows[(ci + 1) % 3]]
        variants = []
        for sp in pows:
            ci += 1
            if quick:
                variants.append((sp, shapes[ci % len(shapes)], "gaussian"))
            else:
                for si, shp in enumerate(shapes):
                    variants.append((sp, shp, ("gaussian", "constant_modulus", "sparse")[(ci + si) % 3] if mode == "snr" else "gaussian"))
        for (sp, shape, fam) in variants:
            x = signal(cplx, sp, shape, fam)
            cfg = {"channel": comp, "mode": mode, "complex": cplx, "value": val, "signal_power": sp, "ndim": len(shape)}
            if isinstance(val, int):
                cfg["value_type"] = "int"
            if fam != "gaussian":
                cfg["signal"] = fam
            try:
                # the call in turn: plain, under no_grad, on a dense transposed view, on an autograd-tracked signal, on the eval-mode / deep-copied object
                _CALL[0] += 1
                w = _CALL[0] % 6
                chan = mk()
                if w == 1:
                    with torch.no_grad():
                        y = chan(x)
                    cfg["route"] = "no_grad"
                elif w == 2 and x.dim() >= 2:
                    from .core import transposed_view
                    x = transposed_view(x)
                    y = chan(x)
                    cfg["route"] = "transposed view"
                elif w == 3:
                    y = chan(x.clone().requires_grad_(True)).detach()
                    cfg["route"] = "requires_grad"
                elif w == 4:
                    import copy
                    y = copy.deepcopy(chan).eval()(x)
                    cfg["route"] = "deepcopy + eval"
                else:
                    y = chan(x)
            except Exception as ex:
                run.violate(comp, "channel_raised", cfg, {"error": repr(ex)[:200]})
                continue
            fx = x
            if nl == "tanh":
                fx = torch.complex(torch.tanh(x.real), torch.tanh(x.imag)) if cplx else torch.tanh(x)
            elif nl == "polar_soft":
                mag = x.abs()
                fx = torch.polar(mag / torch.sqrt(1 + mag * mag), torch.angle(x))
                cfg["complex_mode"] = "polar"
            elif nl == "direct_half":
                fx = 0.5 * x
                cfg["complex_mode"] = "direct"
            noise = y - fx
            nreal = N * (2 if cplx else 1)
            p, mean_ppm = measure(noise, nreal)
            sig = float((fx.to(torch.complex128).abs() ** 2).mean()) if cplx else float((fx.double() ** 2).mean())
            if mode == "power":
                exp = cdb(val)
            elif mode == "scale":
                exp = cdb(2 * val * val * (2 if cplx else 1))
            else:
                exp = cdb(sig) - sint(100 * val)
            add({"ev": "Noise", "N": nreal, "family": family, "noise_cdb": cdb(p), "expected_cdb": exp, "mean_ppm": mean_ppm, "verbatim": -1, "scaling": -1,
                 "shape_ok": tuple(y.shape) == tuple(shape) and (y.is_complex() == cplx)}, comp, cfg)
            run.case(tuple(sorted((k, str(v)) for k, v in cfg.items())), nontrivial=True)
            if mode == "snr" and comp == "AWGNChannel":
                tools.append((cfg, fx, y, sig, p))
    # one channel object used repeatedly (complex, complex, real, complex input): every call delivers the configured power - no drift of the parameter
    for comp, mkc, family in (("AWGNChannel", lambda P: AWGNChannel(avg_noise_power=P), "gaussian"), ("LaplacianChannel", lambda P: LaplacianChannel(avg_noise_power=P), "laplacian"),
                              ("NonlinearChannel", lambda P: NonlinearChannel(lambda v: v, add_noise=True, avg_noise_power=P, complex_mode="cartesian"), "gaussian")):
        for ptype, P in (("float", 0.5), ("tensor", torch.tensor(0.5)), ("int", 2)):
            P0 = float(P)           # the configured value, read before any call
            try:
                ch = mkc(P)
            except Exception:
                continue
            for call, cplx in enumerate((True, True, False, True), start=1):
                shape = (1000, 1000)
                x = signal(cplx, 1.0, shape)
                cfg = {"channel": comp, "mode": "power", "complex": cplx, "value": P0, "value_type": ptype, "signal_power": 1.0, "ndim": 2, "call": call}
                try:
                    y = ch(x)
                except Exception as ex:
                    run.violate(comp, "channel_raised", cfg, {"error": repr(ex)[:200]})
                    break
                p_, mean_ppm = measure(y - x, N * (2 if cplx else 1))
                add({"ev": "Noise", "N": N * (2 if cplx else 1), "family": family, "noise_cdb": cdb(p_), "expected_cdb": cdb(P0), "mean_ppm": mean_ppm, "verbatim": -1, "scaling": -1,
                     "shape_ok": tuple(y.shape) == shape and (y.is_complex() == cplx)}, comp, cfg)
                run.case(tuple(sorted((k, str(v)) for k, v in cfg.items())), nontrivial=True)
    # an AWGN channel reconfigured by assigning its parameter attribute after it has been used (the library's examples do this to sweep a
    # noise power or an SNR over one object): the next call delivers the new value
    for ptype, P1, P2 in (("float", 0.5, 0.125), ("tensor", torch.tensor(0.5), torch.tensor(2.0))):
        for cplx in (False, True):
            ch = AWGNChannel(avg_noise_power=P1)
            shape = (1000, 1000)
            ch(signal(cplx, 1.0, shape))
            ch.avg_noise_power = P2
            x = signal(cplx, 1.0, shape)
            cfg = {"channel": "AWGNChannel", "mode": "power", "complex": cplx, "value": float(P2), "value_type": ptype, "signal_power": 1.0, "ndim": 2, "call": "after reassigning avg_noise_power"}
            try:
                y = ch(x)
            except Exception as ex:
                run.violate("AWGNChannel", "channel_raised", cfg, {"error": repr(ex)[:200]})
                continue
            p_, mean_ppm = measure(y - x, N * (2 if cplx else 1))
            add({"ev": "Noise", "N": N * (2 if cplx else 1), "family": "gaussian", "noise_cdb": cdb(p_), "expected_cdb": cdb(float(P2)), "mean_ppm": mean_ppm, "verbatim": -1, "scaling": -1,
                 "shape_ok": tuple(y.shape) == shape and (y.is_complex() == cplx)}, "AWGNChannel", cfg)
            run.case(tuple(sorted((k, str(v)) for k, v in cfg.items())), nontrivial=True)
    for cplx in (False, True):
        ch = AWGNChannel(snr_db=7.0)
        shape = (1000, 1000)
        ch(signal(cplx, 1.0, shape))
        ch.snr_db = 13.0
        x = signal(cplx, 2.0, shape)
        cfg = {"channel": "AWGNChannel", "mode": "snr", "complex": cplx, "value": 13.0, "value_type": "float", "signal_power": 2.0, "ndim": 2, "call": "after reassigning snr_db"}
        try:
            y = ch(x)
        except Exception as ex:
            run.violate("AWGNChannel", "channel_raised", cfg, {"error": repr(ex)[:200]})
            continue
        sp = float((x.abs().double() ** 2).mean())
        p_, mean_ppm = measure(y - x, N * (2 if cplx else 1))
        add({"ev": "Noise", "N": N * (2 if cplx else 1), "family": "gaussian", "noise_cdb": cdb(p_), "expected_cdb": cdb(sp) - 1300, "mean_ppm": mean_ppm, "verbatim": -1, "scaling": -1,
             "shape_ok": tuple(y.shape) == shape and (y.is_complex() == cplx)}, "AWGNChannel", cfg)
        run.case(tuple(sorted((k, str(v)) for k, v in cfg.items())), nontrivial=True)
    # half-precision signals through the SNR path: the noise power is still computed at full resolution
    for comp, mk, family in (("AWGNChannel", lambda v: AWGNChannel(snr_db=v), "gaussian"), ("LaplacianChannel", lambda v: LaplacianChannel(snr_db=v), "laplacian")):
        for dt in (torch.float16, torch.bfloat16):
            for sp, val in ((1e-4, 40.0), (4e-4, 30.0), (1.0, 10.0)) if dt == torch.float16 else ((1.0, 10.0), (25.0, 0.0)):
                shape = (1000, 1000)
                x = signal(False, sp, shape).to(dt)
                cfg = {"channel": comp, "mode": "snr", "complex": False, "value": val, "signal_power": sp, "ndim": 2, "dtype": str(dt).replace("torch.", "")}
                try:
                    y = mk(val)(x)
                except Exception as ex:
                    continue        # a channel may reject half precision; a wrong noise level counts
                noise = y.double() - x.double()
                p_ = float((noise ** 2).mean())
                sig = float((x.double() ** 2).mean())
                add({"ev": "Noise", "N": N, "family": family, "noise_cdb": cdb(p_ if not math.isfinite(p_) else max(p_, 1e-30)), "expected_cdb": cdb(sig) - sint(100 * val), "mean_ppm": 99999999 if dt == torch.bfloat16 else sint(abs(float(noise.mean())) / math.sqrt(max(p_, 1e-300)) * 1e6),
                     "verbatim": -1, "scaling": -1, "shape_ok": tuple(y.shape) == shape}, comp, cfg)
                run.case(tuple(sorted((k, str(v)) for k, v in cfg.items())), nontrivial=True)
    # exact clauses
    for comp, cls in (("AWGNChannel", AWGNChannel),):
        for cplx in (False, True):
            xi = torch.randint(-50, 50, (4, 257)).float()
            ni = torch.randint(-50, 50, (4, 257)).float()
            if cplx:
                xi = torch.complex(xi, xi.flip(1))
                ni = torch.complex(ni, -ni.flip(0))
            y = cls(avg_noise_power=1.0)(xi, noise=ni)
            add({"ev": "Noise", "N": 100, "family": "gaussian", "noise_cdb": 0, "expected_cdb": 99999, "mean_ppm": 99999999, "verbatim": int(torch.equal(y, xi + ni) and torch.equal(y - xi, ni)),
                 "scaling": -1, "shape_ok": tuple(y.shape) == tuple(xi.shape)}, comp, {"channel": comp, "mode": "supplied_noise", "complex": cplx})
    # supplied noise whose dtype is wider than the input's (real signal + complex noise, float32 signal + float64 noise): still added verbatim
    for tag, xi, ni in (("real_signal_complex_noise", torch.randint(-50, 50, (4, 257)).float(), torch.complex(torch.randint(-50, 50, (4, 257)).float(), torch.randint(1, 50, (4, 257)).float())),
                        ("float32_signal_float64_noise", torch.randint(-50, 50, (4, 257)).float(), torch.randint(-50, 50, (4, 257)).double() + 1e-9),
                        ("complex64_signal_complex128_noise", torch.complex(torch.randint(-5, 5, (3, 64)).float(), torch.randint(-5, 5, (3, 64)).float()),
                         torch.complex(torch.randint(-5, 5, (3, 64)).double(), torch.randint(-5, 5, (3, 64)).double()) + 1e-9)):
        for mkc, mode in ((lambda: AWGNChannel(avg_noise_power=1.0), "power"), (lambda: AWGNChannel(snr_db=10.0), "snr")):
            try:
                y = mkc()(xi, noise=ni)
                ref = xi + ni
                ok = int(y.dtype == ref.dtype and torch.equal(y, ref))
            except Exception:
                continue            # a channel may reject mixed dtypes; a silently altered noise counts
            add({"ev": "Noise", "N": 100, "family": "gaussian", "noise_cdb": 0, "expected_cdb": 99999, "mean_ppm": 99999999, "verbatim": ok, "scaling": -1, "shape_ok": tuple(y.shape) == tuple(xi.shape)},
                "AWGNChannel", {"channel": "AWGNChannel", "mode": "supplied_noise", "dtypes": tag, "parameterisation": mode})
            run.case(("verbatim", tag, mode), nontrivial=True)
    for comp, mk in (("AWGNChannel", lambda P: AWGNChannel(avg_noise_power=P)), ("LaplacianChannel", lambda P: LaplacianChannel(avg_noise_power=P))):
        for cplx in (False, True):
            for P in (0.3, 7.0):
                for j in (1, 3):
                    z = torch.zeros(64, 33, dtype=torch.complex64 if cplx else torch.float32)
                    torch.manual_seed(1234 + j)
                    n1 = mk(P)(z)
                    torch.manual_seed(1234 + j)
                    n2 = mk(P * 4 ** j)(z)
                    ok = torch.allclose(n2, n1 * (2 ** j), rtol=2e-6, atol=0)
                    add({"ev": "Noise", "N": 100, "family": "gaussian", "noise_cdb": 0, "expected_cdb": 99999, "mean_ppm": 99999999, "verbatim": -1, "scaling": int(ok), "shape_ok": True},
                        comp, {"channel": comp, "mode": "same_seed_scaling", "complex": cplx, "value": P, "j": j})
    # the library's own tools on channel outputs, and the conversion utilities on a grid
    for (cfg, fx, y, sig, p) in tools:
        a, b = cdb(sig), cdb(p)
        for name, f in (("calculate_snr", lambda: U.calculate_snr(fx, y)), ("SignalToNoiseRatio", lambda: SignalToNoiseRatio()(fx.reshape(1, -1), y.reshape(1, -1)))):
            try:
                v = float(torch.as_tensor(f()).reshape(-1)[0])
                got = sint(v * 100) if math.isfinite(v) else 9999999
            except Exception as ex:
                got = -9999999
            add({"ev": "Conv", "kind": "snr_from_powers", "a_cdb": a, "b_cdb": b, "got_cdb": got}, name, dict(cfg, tool=name))
            run.case(("tool", name, cfg["value"], cfg["signal_power"], cfg["complex"]), nontrivial=True)
    # the SNR metric on a batch (one value per row, each row against its own powers) and in linear mode
    for (cfg, fx, y, sig, p) in tools[:6]:
        try:
            X, Y = fx.reshape(4, -1), y.reshape(4, -1)
            vals_db = SignalToNoiseRatio()(X, Y).reshape(-1).double().tolist()
            vals_lin = SignalToNoiseRatio(mode="linear")(X, Y).reshape(-1).double().tolist()
        except Exception as ex:
            vals_db, vals_lin = [float("nan")] * 4, [float("nan")] * 4
        for r in range(4):
            xr, nr = X[r].to(torch.complex128) if X.is_complex() else X[r].double(), (Y[r] - X[r]).to(torch.complex128) if X.is_complex() else (Y[r] - X[r]).double()
            a_r, b_r = cdb(float((xr.abs() ** 2).mean())), cdb(float((nr.abs() ** 2).mean()))
            for form, v in (("batched_db", vals_db[r] if r < len(vals_db) else float("nan")), ("batched_linear", 10 * math.log10(vals_lin[r]) if r < len(vals_lin) and vals_lin[r] > 0 and math.isfinite(vals_lin[r]) else float("nan"))):
                got = sint(v * 100) if math.isfinite(v) else 9999999
                add({"ev": "Conv", "kind": "snr_from_powers", "a_cdb": a_r, "b_cdb": b_r, "got_cdb": got}, "SignalToNoiseRatio", dict(cfg, tool="SignalToNoiseRatio", form=form, row=r))
                run.case(("tool", "SignalToNoiseRatio", form, r, cfg["value"], cfg["signal_power"], cfg["complex"]), nontrivial=True)
    grid = [d / 2.0 for d in range(-40, 81)] if not quick else [d * 2.5 for d in range(-8, 17)]
    for d in grid:
        for form in ("float", "tensor"):
            arg = d if form == "float" else torch.tensor([d, d])
            try:
                lin = U.snr_db_to_linear(arg)
                back = U.snr_linear_to_db(lin)
                got = sint(float(torch.as_tensor(back).reshape(-1)[0]) * 100)
            except Exception:
                got = -9999999
            add({"ev": "Conv", "kind": "identity", "a_cdb": sint(d * 100), "b_cdb": 0, "got_cdb": got}, "snr_db_to_linear/snr_linear_to_db", {"tool": "db_linear_round_trip", "form": form})
            for S in (1e-3, 2.0, 500.0):
                sarg = S if form == "float" else torch.tensor([S, S])
                try:
                    npow = U.snr_to_noise_power(sarg, d if form == "float" else torch.tensor([d, d]))
                    got = cdb(float(torch.as_tensor(npow).reshape(-1)[0]))
                except Exception:
                    got = -9999999
                add({"ev": "Conv", "kind": "noise_from_snr", "a_cdb": cdb(S), "b_cdb": sint(d * 100), "got_cdb": got}, "snr_to_noise_power", {"tool": "snr_to_noise_power", "form": form})
                try:
                    Nn = S / (10 ** (d / 10.0))
                    sn = U.noise_power_to_snr(sarg, Nn if form == "float" else torch.tensor([Nn, Nn]))
                    got = sint(float(torch.as_tensor(sn).reshape(-1)[0]) * 100)
                except Exception:
                    got = -9999999
                add({"ev": "Conv", "kind": "snr_from_powers", "a_cdb": cdb(S), "b_cdb": cdb(Nn), "got_cdb": got}, "noise_power_to_snr", {"tool": "noise_power_to_snr", "form": form})
                run.case(("conv", d, form, S), nontrivial=True)
            # integer-valued signal powers given as Python int, integer tensor and float64 tensor: the result is a real number in every form
            for S, sarg, fname_ in ((2, 2, "int"), (2, torch.tensor(2), "int64_tensor"), (500, torch.tensor([500, 500]), "int64_tensor"), (2, torch.tensor(2.0, dtype=torch.float64), "float64_tensor")):
                if form != "float":
                    break
                try:
                    npow = U.snr_to_noise_power(sarg, d)
                    got = cdb(max(float(torch.as_tensor(npow).double().reshape(-1)[0]), 1e-30))
                except Exception:
                    got = -9999999
                add({"ev": "Conv", "kind": "noise_from_snr", "a_cdb": cdb(S), "b_cdb": sint(d * 100), "got_cdb": got}, "snr_to_noise_power", {"tool": "snr_to_noise_power", "form": fname_})
                run.case(("conv", d, fname_, S), nontrivial=True)
    for cplx in (False, True):
        for d in (-10.0, 3.0, 25.0):
            x = signal(cplx, 2.0, (200, 5000))
            yy, nn = U.add_noise_for_snr(x, d)
            p, _ = measure(nn, 0)
            sig = float((x.to(torch.complex128).abs() ** 2).mean()) if cplx else float((x.double() ** 2).mean())
            add({"ev": "Noise", "N": 1000000 * (2 if cplx else 1), "family": "gaussian", "noise_cdb": cdb(p), "expected_cdb": cdb(sig) - sint(100 * d), "mean_ppm": 99999999,
                 "verbatim": int(torch.equal(yy, x + nn)), "scaling": -1, "shape_ok": tuple(yy.shape) == tuple(x.shape)}, "add_noise_for_snr", {"tool": "add_noise_for_snr", "complex": cplx, "value": d})
    run.log("%d events" % len(evs))
    mism = tv.validate(run, "Trace_Channels", evs, name="TV C07", timeout=1800)
    seen = set()
    for (t, line, clause) in mism:
        comp, cfg = meta[line - 1]
        key = (comp, clause, cfg.get("mode"), cfg.get("complex"), cfg.get("tool"), cfg.get("form"))
        if key in seen:
            continue
        seen.add(key)
        run.violate(comp, clause, cfg, evs[line - 1], "event rejected by Trace_Channels clause %s" % clause)
    run.sample({"config": meta[0][1], "event": evs[0]})
    run.sample({"config": meta[len(evs) // 3][1], "event": evs[len(evs) // 3]})
    run.extra["explanation"] = ("distributional clause (average power, zero mean): the harness is a sensor - it measures y - f(x) on 10^6 samples and quantises to centi-dB / ppm; the law, "
                                "the expected value and the 7-sigma acceptance band are operators of NoiseLaw.tla evaluated by TLC. Exact clauses (verbatim noise, same-seed scaling, "
                                "utility identities on a centi-dB grid) are decided without statistics.")
    run.extra["samples_per_configuration"] = N
    if not run.only and not [m for m in mism if m[1] <= 40]:        # the self-test slice (the first 40 events) was accepted
        def corrupt(ev2):
            i = next(i for i, e in enumerate(ev2) if e["ev"] == "Noise" and e["expected_cdb"] != 99999)
            ev2[i]["noise_cdb"] += 300
            return i + 1
        ok, msg = tv.selftest_binding("Trace_Channels", evs[:40], corrupt, "noise_power_equals_configured_value")
        if not ok:
            raise tlc.TLCFailure("binding self-test failed: " + msg)
        run.extra["binding_selftest"] = "shifting one measured noise power by 3 dB is rejected at that line"
    run.assumptions += ["7-sigma bands from the fourth moment (Gaussian 2/N, Laplacian 5/N): per-run false-alarm < 1e-9 including the union over all events",
                        "the sensor only measures and quantises; it takes no decision"]
