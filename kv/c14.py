"""C14 - constellations are bijectively labelled, normalised, Gray-coded when requested; Gray utilities are inverse bijections.

MC : MC_Gray - on all n < 2^16, G2B(B2G(n)) = n, B2G(G2B(n)) = n, consecutive integers map to words at distance one, and the limb
     form agrees with the natural-number form.
TV : one Scheme + Constellation event per scheme/order/option (points as scaled integers, labels, the modulator's image of every label);
     Gray events for every n < 2^16 (thorough; strided + all n < 2^12 in quick) and seeded n < 2^60, scalar and array forms.
"""
import random

import torch

from . import modem, tlc, tv

LEVEL = "model_checking"


def L2(v):
    return [v & ((1 << 30) - 1), v >> 30]


def gray_events(rng, quick):
    from kaira.modulations.utils import binary_array_to_gray, binary_to_gray, gray_array_to_binary, gray_to_binary
    ns = list(range(1 << 12)) + list(range(1 << 12, 1 << 16, 37)) if quick else list(range(1 << 16))
    ns += [rng.randrange(1 << 60) for _ in range(300 if quick else 3000)]
    ns += [(1 << j) - 1 for j in range(1, 60)] + [1 << j for j in range(60)]
    evs = []
    tid = 500000
    arr_g = {}
    arr_b = {}
    small = [n for n in ns if n < (1 << 62)]
    for i in range(0, len(small), 512):
        chunk = small[i:i + 512]
        try:
            ga = binary_array_to_gray(torch.tensor(chunk, dtype=torch.int64)).tolist()
            ba = gray_array_to_binary(torch.tensor(chunk, dtype=torch.int64)).tolist()
        except Exception:
            ga = ba = [-1] * len(chunk)
        for n, g, b in zip(chunk, ga, ba):
            arr_g[n], arr_b[n] = int(g), int(b)
    for n in ns:
        tid += 1
        try:
            g = binary_to_gray(n)
            e = {"ev": "Gray", "tid": tid, "n": L2(n), "g": L2(g), "bg": L2(gray_to_binary(g)), "gb": L2(gray_to_binary(n)),
                 "gnext": L2(binary_to_gray(n + 1)), "ga": L2(arr_g[n]) if arr_g[n] >= 0 else [-1, -1], "ba": L2(arr_b[n]) if arr_b[n] >= 0 else [-1, -1]}
        except Exception as ex:
            e = {"ev": "Gray", "tid": tid, "n": L2(n), "g": [-1, -1], "bg": [-1, -1], "gb": [-1, -1], "gnext": [-1, -1], "ga": [-1, -1], "ba": [-1, -1]}
        evs.append(e)
    return evs


def run(run):
    rng = random.Random(run.seed)
    quick = run.tier == "quick"
    run.rule = ("every scheme/order/labelling/normalisation option that publishes a constellation (one Constellation event each) and Gray "
                "utilities on n < 2^16 and seeded n < 2^60; non-trivial = order >= 4 or n >= 2; distinct by scheme name / n")
    r = tlc.run("MC_Gray", "CONSTANT Bits = 16\nSPECIFICATION Spec\nCHECK_DEADLOCK FALSE\nINVARIANT Inverse1\nINVARIANT Inverse2\nINVARIANT Adjacent\nINVARIANT LimbsAgree\n", workers=16, timeout=900)
    if not r.ok:
        raise tlc.TLCFailure("MC_Gray: %s %s" % (r.errors, r.violated))
    run.add_tlc("MC_Gray all n < 2^16", r)
    cat = modem.catalogue(run.tier)
    evs, owner = [], []
    tid = 0
    for s in cat:
        tid += 1
        try:
            h = modem.scheme_event(s, tid)
        except Exception as ex:
            run.violate(s.component, "construction_raised", s.config(), {"scheme": s.name, "error": repr(ex)[:200]})
            continue
        if h is None:
            continue
        tid += 1
        evs += [h, {"ev": "Constellation", "tid": tid}]
        owner += [s, s]
        run.case(("scheme", s.name), nontrivial=s.b >= 2)
    nsch = len(evs) // 2
    gev = gray_events(rng, quick)
    for e in gev:
        run.case(("gray", e["n"][0], e["n"][1]), nontrivial=e["n"] != [0, 0] and e["n"] != [1, 0])
    evs += gev
    owner += [None] * len(gev)
    run.log("%d schemes, %d Gray arguments" % (nsch, len(gev)))
    mism = tv.validate(run, "Trace_Modem", evs, name="TV C14", timeout=3000, heap="12g")
    seen = set()
    for (t, line, clause) in mism:
        e = evs[line - 1]
        if e["ev"] == "Gray":
            n = e["n"][0] + (e["n"][1] << 30)
            key = ("gray_utils", clause, n if n in (1023, 1365, 1022) else "other")
            if key in seen:
                continue
            seen.add(key)
            run.violate("gray_utils", clause, {"n": n}, {"n": n, "event": e}, "Gray event rejected by Trace_Modem clause %s" % clause)
        else:
            s = owner[line - 1]
            if (s.name, clause) in seen:
                continue
            seen.add((s.name, clause))
            h = evs[line - 2]
            run.violate(s.component, clause, s.config(), {"scheme": s.name, "labels": h["labels"][:16], "points": h["pts"][:16], "modidx": h["modidx"][:16]},
                        "Constellation rejected by Trace_Modem clause %s" % clause)
    run.sample({k: (v if not isinstance(v, list) else v[:8]) for k, v in evs[0].items()})
    run.sample(gev[100])
    if not run.only and not [m for m in mism if m[1] <= 12]:        # the self-test slice (the first 12 events) was accepted
        def corrupt(ev2):
            i = next(i for i, e in enumerate(ev2) if e["ev"] == "Scheme" and e["b"] >= 2)
            ev2[i]["labels"] = [ev2[i]["labels"][1], ev2[i]["labels"][0]] + ev2[i]["labels"][2:]
            return i + 2
        ok, msg = tv.selftest_binding("Trace_Modem", evs[:12], corrupt)
        if not ok:
            raise tlc.TLCFailure("binding self-test failed: " + msg)
        run.extra["binding_selftest"] = "swapping two published labels is rejected at the Constellation event"
