"""X01 (extended coverage, not a listed property) - the stateful soft-bit thresholders follow Thresholders.tla.

MC : MC_Thresholders, both machines, every history up to MaxLen over inputs on and around the band edges: the latch law
     (output = most recent out-of-band input since the latches were created, else the installed / zero latch), outputs are
     bits, the dynamic threshold stays within its limits and moves monotonically towards a repeated batch. The named wrong
     design "stateless" must be rejected (vacuity guard).
GEN: every exported history (final op = forward) is replayed on the real HysteresisThresholder / DynamicThresholder
     (probability inputs; for the hysteresis machine also LLR inputs), comparing the output and the stored state after
     every step.
"""
import torch

from . import tlc

LEVEL = "model_checking"

CFG = '''CONSTANTS Machine = "%s"
MaxLen = %d
Vals1 = {%s}
Vals2 = {%s}
Low = 3
High = 5
Design = "%s"
Export = %s
SPECIFICATION Spec
CHECK_DEADLOCK FALSE
INVARIANT LatchLaw
INVARIANT OutputsAreBits
INVARIANT ThresholdBounded
INVARIANT Extremes
INVARIANT Monotone
INVARIANT ExportInv
'''


def cfg(machine, maxlen, v1, v2, design="latch", export=True):
    return CFG % (machine, maxlen, ",".join(map(str, v1)), ",".join(map(str, v2)), design, "TRUE" if export else "FALSE")


def to_input(x, llr):
    if llr:
        return torch.tensor([{2: 4.0, 4: 0.0, 6: -4.0}[v] for v in x], dtype=torch.float32)
    return torch.tensor([v / 8.0 for v in x], dtype=torch.float32)


def replay_hysteresis(h, llr):
    from kaira.models.binary.soft_bit_thresholding import HysteresisThresholder, InputType
    t = HysteresisThresholder(high_threshold=5 / 8, low_threshold=3 / 8, input_type=InputType.LLR if llr else InputType.PROBABILITY)
    for step, e in enumerate(h, start=1):
        if e[0] == "rst":
            init = None if list(e[1]) == [-1] else torch.tensor([float(v) for v in e[1]])
            t.reset_state(init)
            continue
        out = t(to_input(e[1], llr), reset_state=bool(e[2]))
        got = [int(v) if float(v) in (0.0, 1.0) else -1 for v in out.reshape(-1).tolist()]
        if got != list(e[3]):
            return (step, "output_is_the_latch_of_the_specification", list(e[3]), got)
        stt = t._state
        sgot = None if stt is None else [int(v) for v in stt.reshape(-1).tolist()]
        if sgot != list(e[3]):
            return (step, "stored_state_equals_the_returned_latches", list(e[3]), sgot)
        if out.data_ptr() == stt.data_ptr() and False:
            pass
    return None


def replay_dynamic(h):
    from kaira.models.binary.soft_bit_thresholding import DynamicThresholder
    t = DynamicThresholder(decay=0.5, initial_threshold=0.5, min_threshold=0.125, max_threshold=0.875)
    for step, e in enumerate(h, start=1):
        unit = e[5]
        if e[0] == "rst":
            v = e[1][0]
            t.reset_stats(None if v < 0 else v / 8.0)
            if abs(float(t.threshold) - e[4] / unit) > 1e-12:
                return (step, "reset_installs_or_keeps_the_threshold", e[4] / unit, float(t.threshold))
            continue
        out = t(to_input(e[1], False), reset=bool(e[2]))
        got = [int(v) if float(v) in (0.0, 1.0) else -1 for v in out.reshape(-1).tolist()]
        if abs(float(t.threshold) - e[4] / unit) > 1e-12:
            return (step, "threshold_is_the_clamped_running_mean", e[4] / unit, float(t.threshold))
        if got != list(e[3]):
            return (step, "output_is_one_exactly_above_the_new_threshold", list(e[3]), got)
    return None


def run(run):
    quick = run.tier == "quick"
    run.rule = ("every history of length MaxLen over forward(x, reset) / reset_state / reset_stats, inputs of length 1 and 2 with values below, on and "
                "above the thresholds; non-trivial = history ending in a forward call; distinct by history")
    ml = 3
    cases = [("hysteresis", False, [2, 3, 4, 5, 6], [2, 4, 6] if quick else [2, 3, 4, 5, 6]),
             ("hysteresis", True, [2, 4, 6], [2, 4, 6]),
             ("dynamic", False, [0, 2, 4, 5, 8], [0, 3, 8] if quick else [0, 2, 3, 5, 8])]
    # deeper exhaustive exploration without export
    for (m, v1, v2) in (("hysteresis", [2, 3, 4, 5, 6], [2, 4, 6]), ("dynamic", [0, 2, 4, 5, 8], [0, 3, 8])):
        r = tlc.run("MC_Thresholders", cfg(m, 4 if quick else 5, v1, v2, export=False), workers=16, timeout=1800)
        if not r.ok:
            raise tlc.TLCFailure("MC_Thresholders %s: %s %s" % (m, r.errors, r.violated))
        run.add_tlc("MC_Thresholders %s MaxLen=%d" % (m, 4 if quick else 5), r)
    g = tlc.run("MC_Thresholders", cfg("hysteresis", 3, [2, 4, 6], [4], design="stateless", export=False), workers=4, timeout=600)
    if g.ok or "LatchLaw" not in " ".join(g.violated):
        raise tlc.TLCFailure("vacuity guard: the stateless design was not rejected by LatchLaw (%s)" % (g.violated,))
    run.extra["vacuity_guard"] = "design 'stateless' violates LatchLaw"
    for (m, llr, v1, v2) in cases:
        r = tlc.run("MC_Thresholders", cfg(m, ml, v1, v2), workers=1, timeout=1800, heap="12g")
        if not r.ok:
            raise tlc.TLCFailure("MC_Thresholders export %s: %s %s" % (m, r.errors, r.violated))
        run.add_tlc("MC_Thresholders export %s%s" % (m, " llr" if llr else ""), r)
        hs = [h[1] for h in r.tuples("THIST")]
        if not hs:
            raise tlc.TLCFailure("no histories exported for %s" % m)
        bad = False
        for h in hs:
            d = replay_hysteresis(h, llr) if m == "hysteresis" else replay_dynamic(h)
            run.traces += 1
            run.case((m, llr, str(h)), nontrivial=True)
            if d and not bad:
                bad = True
                comp = "HysteresisThresholder" if m == "hysteresis" else "DynamicThresholder"
                run.violate(comp, d[1], {"machine": m, "llr": llr}, {"history": h, "step": d[0], "expected": d[2], "observed": d[3]},
                            "history replay disagrees with Thresholders.tla")
        run.sample({"machine": m, "llr": llr, "history": hs[len(hs) // 2]})
        run.log("%s%s: %d histories replayed" % (m, " (llr)" if llr else "", len(hs)))
    run.assumptions += ["decay 1/2, thresholds and inputs dyadic: all values exact in float32 / float64, so the comparison is exact",
                        "DynamicThresholder: adaptation_method 'mean' (and 'median', identical code); 'percentile' is outside the integer model"]
    run.exhaustive = True
