"""C18 - binary polynomial and GF(2^m) arithmetic satisfy the ring and field laws.

MC  : MC_Algebra - the spec's GF(2)[X] obeys the Euclidean-ring laws (all pairs below degree 5/6) and its GF(2^m) with
      the 16 standard primitive moduli obeys the field laws (all pairs m<=5/6, all triples m<=4/5); MC_Order walks the
      powers of the element the *implementation* designates as primitive, under the modulus the implementation publishes,
      one multiplication per TLC state (depth 65 535 for m = 16): order must be 2^m - 1.
TV  : Trace_Algebra validates the implementation's products, divisions, gcd/lcm, derivatives (all pairs below degree 6/8,
      seeded operands up to degree 200 as exponent sets) and field sums, products, powers, inverses, traces, conjugates,
      minimal polynomials (all pairs for small m, seeded for m up to 16) against the spec's arithmetic.
"""
import random
from concurrent.futures import ThreadPoolExecutor

from . import tlc, tv

LEVEL = "model_checking"


def order_cfg(m, mod, alpha):
    return ("CONSTANTS M = %d\nMod = %d\nAlpha = %d\nSPECIFICATION Spec\nCHECK_DEADLOCK FALSE\nINVARIANT ModulusShape\nINVARIANT NonZero\n"
            "INVARIANT OrderIsFull\nINVARIANT Bounded\n" % (m, mod, alpha))


def exps(v):
    return [j for j in range(v.bit_length()) if (v >> j) & 1]


def poly_events(rng, quick):
    from kaira.models.fec.algebra import BinaryPolynomial as BP
    evs = []
    tid = 0
    D = 5 if quick else 8
    pairs = [(a, b) for a in range(1 << D) for b in range(1 << D)]
    if quick:
        pairs += [(rng.randrange(1 << 8), rng.randrange(1 << 8)) for _ in range(1500)]
    pairs += [(rng.randrange(1 << 15), rng.randrange(1, 1 << 15)) for _ in range(300 if quick else 3000)]
    for a, b in pairs:
        tid += 1
        A, B = BP(a), BP(b)
        e = {"ev": "Poly", "tid": tid, "a": a, "b": b, "mul": (A * B).value, "gcd": A.gcd(B).value, "lcm": A.lcm(B).value,
             "da": A.derivative().value, "dega": A.degree, "q": 0, "r": 0}
        if b:
            e["q"], e["r"] = A.div(B).value, (A % B).value
        if e["mul"] >= 2 ** 31 or e["lcm"] >= 2 ** 31:
            continue
        evs.append(e)
    # large operands as exponent lists
    for _ in range(12 if quick else 80):
        da, db = rng.randrange(40, 201), rng.randrange(5, 120)
        a = rng.getrandbits(da) | (1 << da)
        b = rng.getrandbits(db) | (1 << db)
        if rng.random() < 0.4:      # plant a common factor
            c = rng.getrandbits(20) | (1 << 20)
            a, b = (BP(a) * BP(c)).value, (BP(b) * BP(c)).value
        A, B = BP(a), BP(b)
        tid += 1
        evs.append({"ev": "SPoly", "tid": tid, "a": exps(a), "b": exps(b), "mul": exps((A * B).value), "q": exps(A.div(B).value),
                    "r": exps((A % B).value), "gcd": exps(A.gcd(B).value)})
    return evs


def field_events(rng, quick):
    from kaira.models.fec.algebra import BinaryPolynomial as BP
    from kaira.models.fec.algebra import FiniteBifield
    evs = []
    tid = 1000000
    full_m = 5 if quick else 8
    for m in range(1, 17):
        F = FiniteBifield(m)
        md = F.modulus.value
        if m <= full_m:
            pairs = [(a, b) for a in range(1 << m) for b in range(1 << m)]
            if m >= 7 and len(pairs) > 20000:
                pairs = rng.sample(pairs, 20000)
        else:
            pairs = [(rng.randrange(1 << m), rng.randrange(1 << m)) for _ in range(60 if quick else 600)]
        seen_a = set()
        for a, b in pairs:
            tid += 1
            x, y = F(a), F(b)
            ee = rng.randrange(0, 2 ** m + 3)
            e = {"ev": "Field", "tid": tid, "m": m, "mod": md, "a": a, "b": b, "e": ee, "add": 0, "mul": 0, "pow": 0, "inv": 0, "trace": 0,
                 "conj": [], "minpoly": -1, "evalp": -1, "evalv": 0, "raised": False}
            try:
                e.update({"add": (x + y).value, "mul": (x * y).value, "pow": (x ** ee).value, "inv": x.inverse().value if a else 0,
                          "trace": int(x.trace()), "conj": [c.value for c in x.conjugates()]})
                if a not in seen_a and (m <= 8 or len(seen_a) < 6) and a != 0:
                    seen_a.add(a)
                    p = rng.randrange(1, 1 << 10)
                    e["evalp"], e["evalv"] = p, BP(p).evaluate(x).value
                    e["minpoly"] = x.minimal_polynomial().value
            except Exception as exc:
                e["raised"] = True
                e["error"] = repr(exc)[:100]
            evs.append(e)
        # the field-level table of minimal polynomials (get_minimal_polynomials) must hold, for every element, the polynomial the element
        # itself reports: an entry that differs is logged as one more Field event and judged by the specification like any other
        if m <= 8:
            try:
                tab = F.get_minimal_polynomials()
            except Exception:
                tab = {}
            for a in range(1, 1 << m):
                if a not in tab:
                    continue
                x = F(a)
                try:
                    own = x.minimal_polynomial().value
                except Exception:
                    continue
                if tab[a].value != own:
                    tid += 1
                    evs.append({"ev": "Field", "tid": tid, "m": m, "mod": md, "a": a, "b": 0, "e": 1, "add": a, "mul": 0, "pow": a, "inv": x.inverse().value,
                                "trace": int(x.trace()), "conj": [c.value for c in x.conjugates()], "minpoly": tab[a].value, "evalp": -1, "evalv": 0,
                                "raised": False, "via": "get_minimal_polynomials"})
    return evs


def run(run):
    rng = random.Random(run.seed)
    quick = run.tier == "quick"
    run.rule = ("polynomial pairs (all below degree 5 quick / 8 thorough, seeded to degree 15 and 200) and field element pairs "
                "(all pairs for m<=5 quick / 8 thorough, seeded for m<=16); non-trivial = both operands non-zero; distinct by operands")
    # --- (A) oracle: the spec's arithmetic obeys the laws
    cfg = "CONSTANTS MaxDeg = %d\nMaxM = %d\nMaxM3 = %d\nSPECIFICATION Spec\nCHECK_DEADLOCK FALSE\nINVARIANT Laws\n" % ((5, 5, 4) if quick else (6, 6, 5))
    r = tlc.run("MC_Algebra", cfg, workers=16, timeout=3000)
    if not r.ok:
        raise tlc.TLCFailure("MC_Algebra: %s %s\n%s" % (r.errors, r.violated, r.stdout[-1500:]))
    run.add_tlc("MC_Algebra ring + field laws", r)
    # --- (A') primitive element of the implementation's fields, by state exploration
    from kaira.models.fec.algebra import FiniteBifield

    def one(m):
        F = FiniteBifield(m)
        return m, F.modulus.value, F.primitive_element().value, tlc.run("MC_Order", order_cfg(m, F.modulus.value, F.primitive_element().value), workers=1, timeout=600)
    with ThreadPoolExecutor(8) as ex:
        res = list(ex.map(one, range(1, 17)))
    for m, md, alpha, r in res:
        run.add_tlc("MC_Order m=%d modulus=%s alpha=%d" % (m, bin(md), alpha), r)
        run.case(("order", m), nontrivial=True)
        if r.errors and not r.violated:
            raise tlc.TLCFailure("MC_Order m=%d: %s" % (m, r.errors))
        if r.violated:
            run.violate("FiniteBifield", "primitive_element_has_order_2m_minus_1", {"m": m}, {"m": m, "modulus": md, "alpha": alpha, "violated": r.violated[:2],
                                                                                        "states_walked": r.distinct},
                        "MC_Order: %s violated for the published modulus / primitive element" % r.violated[0])
    run.sample({"order_walk": {"m": res[-1][0], "modulus": res[-1][1], "alpha": res[-1][2], "states": res[-1][3].distinct}})
    # --- (C) trace validation
    evs = poly_events(rng, quick) + field_events(rng, quick)
    for e in evs:
        run.case((e["ev"], e["tid"]), nontrivial=(e["a"] not in (0, []) and e["b"] not in (0, [])))
    run.log("%d events recorded" % len(evs))
    mism = tv.validate_sharded(run, "Trace_Algebra", evs, (lambda e: True), name="TV C18", max_events=(4000 if quick else 8000), jobs=10)      # stateless trace: any cut is a header
    seen = set()
    for (t, line, clause) in mism:
        e = evs[line - 1]
        comp = "BinaryPolynomial" if e["ev"] in ("Poly", "SPoly") else "FiniteBifield"
        cfg = {"m": e["m"]} if e["ev"] == "Field" else {"form": e["ev"]}
        if (comp, clause, str(cfg)) in seen:
            continue
        seen.add((comp, clause, str(cfg)))
        run.violate(comp, clause, cfg, e, "event rejected by Trace_Algebra clause %s" % clause)
    run.sample(evs[len(evs) // 3])
    run.sample(next(e for e in evs if e["ev"] == "Field" and e["m"] == 4 and e["minpoly"] > 0))
    if not mism and not run.only:
        def corrupt(ev2):
            i = next(i for i, e in enumerate(ev2) if e["ev"] == "Poly" and e["a"] > 1 and e["b"] > 1)
            ev2[i]["mul"] ^= 1
            return i + 1
        j0 = next(i for i, e in enumerate(evs) if e["ev"] == "Poly" and e["a"] > 1 and e["b"] > 1)
        ok, msg = tv.selftest_binding("Trace_Algebra", evs[j0:j0 + 200], corrupt, "product_is_carryless_product")
        if not ok:
            raise tlc.TLCFailure("binding self-test failed: " + msg)
        run.extra["binding_selftest"] = "flipping the constant term of one logged product is rejected at that line"
