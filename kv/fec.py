"""Shared FEC machinery: projections (tensors <-> limb vectors), the code catalogue, Construct events."""
import itertools
import random

import torch

LB = 30


def nlimbs(n):
    return max(1, (n + LB - 1) // LB)


def to_int(t):
    """0/1 tensor (1-D) -> python int, position j = bit j."""
    v = 0
    for j, b in enumerate(t.reshape(-1).tolist()):
        b = int(round(float(b)))
        if b not in (0, 1):
            return -1
        if b:
            v |= 1 << j
    return v


def limbs(x, n):
    L = nlimbs(n)
    if x < 0:
        return [-1] * L
    return [(x >> (LB * i)) & ((1 << LB) - 1) for i in range(L)]


def from_int(x, n, dtype=torch.float32):
    return torch.tensor([(x >> j) & 1 for j in range(n)], dtype=dtype)


def mat_rows(M):
    return [to_int(M[i]) for i in range(M.shape[0])]


def wt(x):
    return bin(x).count("1")


# ---------------------------------------------------------------------------------- catalogue
class Entry:
    def __init__(self, name, family, params, ctor, info="na", cyclic=False, gpoly=None, perfect=False, dexact=False,
                 component=None, linear_syndrome=True, size=None, extra=None):
        self.extra = dict(extra or {})
        self.name = name
        self.family = family
        self.params = params
        self.ctor = ctor
        self.info = info          # 'left' | 'right' | 'custom' | 'permuted' | 'na'
        self.cyclic = cyclic
        self.gpoly = gpoly
        self.perfect = perfect
        self.dexact = dexact
        self.component = component
        self.linear_syndrome = linear_syndrome
        self._obj = None
        self.error = None

    def obj(self):
        if self._obj is None and self.error is None:
            try:
                self._obj = self.ctor()
            except Exception as e:  # construction failure is reported by the caller
                self.error = "%s: %s" % (type(e).__name__, e)
        return self._obj

    def config(self):
        c = {"family": self.family, "params": list(self.params), "info": self.info}
        c.update(self.extra)
        return c


def divisors_of_xn1(n):
    """All g(X) of degree 1..n-1 dividing X^n+1 over GF(2) (ints, bit j = coefficient of X^j)."""
    def pmod(a, g):
        dg = g.bit_length() - 1
        while a.bit_length() - 1 >= dg and a:
            a ^= g << (a.bit_length() - 1 - dg)
        return a
    # factor X^n+1 into irreducibles by trial division, then enumerate products
    target = (1 << n) | 1
    irr = []
    rem = target
    g = 2
    while rem.bit_length() - 1 >= 1 and g.bit_length() <= rem.bit_length():
        if g.bit_length() - 1 > (rem.bit_length() - 1) // 2:
            irr.append(rem)
            rem = 1
            break
        if pmod(rem, g) == 0:
            # divide
            q, a = 0, rem
            dg = g.bit_length() - 1
            while a.bit_length() - 1 >= dg and a:
                s = a.bit_length() - 1 - dg
                q |= 1 << s
                a ^= g << s
            rem = q
            irr.append(g)
        else:
            g += 1
    if rem.bit_length() - 1 >= 1:
        irr.append(rem)

    def pmul(a, b):
        r = 0
        while b:
            if b & 1:
                r ^= a
            a <<= 1
            b >>= 1
        return r
    out = set()
    for mask in range(1, 1 << len(irr)):
        p = 1
        for i, f in enumerate(irr):
            if mask >> i & 1:
                p = pmul(p, f)
        d = p.bit_length() - 1
        if 1 <= d <= n - 1:
            out.add(p)
    return sorted(out)


def _block_lists(n, k):
    """Index lists that name exactly the first / the last k positions, in non-ascending order (reversed, rotated by one)."""
    first, last = list(range(k)), list(range(n - k, n))
    return [("firstblock-reversed", first[::-1]), ("lastblock-rotated", last[1:] + last[:1])] if k >= 2 else []


def catalogue(tier, rng, families=None, max_n=64, long_bch=False, rm5=False, all_divisors=False):
    from kaira.models.fec import encoders as E
    quick = tier == "quick"
    cat = []

    def add(e):
        if families is None or e.family in families:
            cat.append(e)

    # --- generic non-systematic full-rank generators (seeded) and systematic with all info-set kinds
    shapes = [(2, 4), (3, 6), (3, 7), (4, 7), (4, 8), (5, 10)] if quick else [(2, 4), (2, 5), (3, 5), (3, 6), (3, 7), (4, 7), (4, 8), (5, 9), (5, 10), (6, 12), (7, 12)]
    for (k, n) in shapes:
        for rep in range(2 if quick else 4):
            while True:
                rows = [rng.randrange(1, 1 << n) for _ in range(k)]
                if _rank(rows) == k:
                    break
            G = torch.stack([from_int(r, n) for r in rows])
            add(Entry("Linear(%d,%d)#%d" % (n, k, rep), "linear", (n, k, rep), (lambda G=G: E.LinearBlockCodeEncoder(G)), info="na",
                      component="LinearBlockCodeEncoder"))
            if rep == 0 and (k, n) in ((3, 7), (4, 8)):
                # the same kind of matrix given as a boolean tensor and as float64 (the null-space elimination then runs on those dtypes)
                for dn, dt in (("bool", torch.bool), ("float64", torch.float64)):
                    add(Entry("Linear(%d,%d)#%d/%s" % (n, k, rep, dn), "linear", (n, k, rep, dn), (lambda G=G, dt=dt: E.LinearBlockCodeEncoder(G.to(dt))), info="na",
                              component="LinearBlockCodeEncoder"))
    for (k, m) in ([(2, 2), (3, 3), (4, 3), (3, 4)] if quick else [(1, 2), (2, 2), (2, 3), (3, 3), (4, 3), (3, 4), (5, 4), (4, 6)]):
        n = k + m
        P = torch.tensor([[rng.randrange(2) for _ in range(m)] for _ in range(k)], dtype=torch.float32)
        custom = sorted(rng.sample(range(n), k))
        perm = list(custom)
        while k > 1 and perm == custom:
            rng.shuffle(perm)
        for info, iset in [("left", "left"), ("right", "right"), ("custom", custom), ("permuted", perm)] + (_block_lists(n, k) if (k, m) in ((3, 3), (4, 3)) else []):
            add(Entry("Systematic(%d,%d)/%s" % (n, k, info), "systematic", (n, k), (lambda P=P, iset=iset: E.SystematicLinearBlockCodeEncoder(P, information_set=iset)),
                      info=info, component="SystematicLinearBlockCodeEncoder"))
    # --- Hamming
    for mu in range(2, (5 if quick else 7)):
        for ext in (False, True):
            n = 2 ** mu - 1 + int(ext)
            if n > max_n:
                continue
            k = 2 ** mu - 1 - mu
            infos = [("left", "left"), ("right", "right")]
            if mu <= 4:
                cs = sorted(rng.sample(range(n), k))
                infos.append(("custom", cs))
                pm = rng.sample(range(n), k)
                if pm == sorted(pm):
                    pm = pm[::-1]
                infos.append(("permuted", pm))          # an information set listed in non-ascending order
                if mu == 3:
                    infos += _block_lists(n, k)
            for info, iset in infos:
                add(Entry("Hamming(mu=%d,ext=%s)/%s" % (mu, ext, info), "hamming", (mu, int(ext)),
                          (lambda mu=mu, ext=ext, iset=iset: E.HammingCodeEncoder(mu, extended=ext, information_set=iset)), info=info,
                          perfect=not ext, dexact=True, component="HammingCodeEncoder"))
    # --- repetition, SPC
    for r in (range(1, 10) if not quick else (1, 2, 3, 5, 8)):
        add(Entry("Repetition(%d)" % r, "repetition", (r,), (lambda r=r: E.RepetitionCodeEncoder(r)), dexact=True, component="RepetitionCodeEncoder"))
    for k in (range(1, 13) if not quick else (1, 2, 4, 7, 11)):
        add(Entry("SPC(%d)" % k, "spc", (k,), (lambda k=k: E.SingleParityCheckCodeEncoder(k)), dexact=True, component="SingleParityCheckCodeEncoder"))
    # --- Reed-Muller
    for m in range(1, (6 if quick else 7)):
        for r in range(0, m):
            if quick and m == 5 and not (rm5 and r in (1, 2)):
                continue        # quick tier: m <= 4, and with rm5 the two largest codes of length 32 whose codebook can still be enumerated
            if 2 ** m > max_n + 1:       # a bound of 31 (the cyclic lengths) still admits the Reed-Muller codes of length 32
                continue
            from math import comb
            if sum(comb(m, i) for i in range(r + 1)) > 16:
                continue        # the encoder's own syndrome / inverse is a 2^k brute force: infeasible above k = 16
            add(Entry("RM(%d,%d)" % (r, m), "rm", (r, m), (lambda r=r, m=m: E.ReedMullerCodeEncoder(r, m)), dexact=True,
                      component="ReedMullerCodeEncoder", linear_syndrome=False))
    # --- cyclic: named codes and every divisor of X^n+1
    for name in ("Hamming(7,4)", "Simplex(7,3)", "BCH(15,7)", "BCH(15,5)", "Golay(23,12)"):
        for info in ("left", "right"):
            n = int(name.split("(")[1].split(",")[0])
            add(Entry("Cyclic[%s]/%s" % (name, info), "cyclic_named", (name,), (lambda name=name, info=info: E.CyclicCodeEncoder.create_standard_code(name, information_set=info)),
                      info=info, cyclic=True, gpoly="obj", component="CyclicCodeEncoder", extra={"k": int(name.split(",")[1].rstrip(")"))}))
    for n in ((7, 9, 15) if quick else range(3, 22)):
        divs = divisors_of_xn1(n)
        if quick and len(divs) > 6:
            some = rng.sample(divs, 6)
            divs = some + [g for g in divs if g not in some] if all_divisors else some      # the sampled ones first: they carry the extra layouts
        for gi, g in enumerate(divs):
            kk = n - (g.bit_length() - 1)
            infos = [("left", "left"), ("right", "right")]
            if gi < 2 and 1 < kk < n:
                cs = sorted(rng.sample(range(n), kk))
                pm = rng.sample(range(n), kk)
                if pm == sorted(pm):
                    pm = pm[::-1]
                infos += [("custom", cs), ("permuted", pm)] + _block_lists(n, kk)
            for info, iset in infos:
                add(Entry("Cyclic(n=%d,g=%s)/%s" % (n, bin(g), info), "cyclic", (n, g), (lambda n=n, g=g, iset=iset: E.CyclicCodeEncoder(code_length=n, generator_polynomial=g, information_set=iset)),
                          info=info, cyclic=True, gpoly=g, component="CyclicCodeEncoder", extra={"k": kk}))
            # the same code given by its check polynomial h(X) = (X^n + 1) / g(X) only (several such codes of one length in one process)
            if gi < 3 and 0 < kk < n:
                hq, a, dg = 0, (1 << n) | 1, g.bit_length() - 1
                while a and a.bit_length() - 1 >= dg:
                    sh = a.bit_length() - 1 - dg
                    hq |= 1 << sh
                    a ^= g << sh
                if a == 0:
                    add(Entry("Cyclic(n=%d,h=%s)/left" % (n, bin(hq)), "cyclic", (n, g), (lambda n=n, hq=hq: E.CyclicCodeEncoder(code_length=n, check_polynomial=hq)),
                              info="left", cyclic=True, gpoly=g, component="CyclicCodeEncoder", extra={"k": kk, "given_by": "check_polynomial"}))
                    # ... and with the other layouts (two constructor options that each work alone: h(X) only, and a listed information set)
                    for info, iset in infos[1:4]:
                        add(Entry("Cyclic(n=%d,h=%s)/%s" % (n, bin(hq), info), "cyclic", (n, g),
                                  (lambda n=n, hq=hq, iset=iset: E.CyclicCodeEncoder(code_length=n, check_polynomial=hq, information_set=iset)),
                                  info=info, cyclic=True, gpoly=g, component="CyclicCodeEncoder", extra={"k": kk, "given_by": "check_polynomial"}))
    # --- BCH: every Bose distance
    from kaira.models.fec.encoders.bch_code import get_valid_bose_distances
    for mu in range(2, 7):
        if 2 ** mu - 1 > max_n:
            continue
        try:
            deltas = get_valid_bose_distances(mu)
        except Exception:
            deltas = [3]
        for delta in deltas:
            infos = [("left", "left"), ("right", "right")]
            if mu in (3, 4):
                try:
                    kk = int(E.BCHCodeEncoder(mu, delta).code_dimension)
                    nn = 2 ** mu - 1
                    if 1 < kk < nn:
                        pm = rng.sample(range(nn), kk)
                        if pm == sorted(pm):
                            pm = pm[::-1]
                        infos += [("custom", sorted(rng.sample(range(nn), kk))), ("permuted", pm)] + _block_lists(nn, kk)
                except Exception:
                    pass
            for info, iset in infos:
                if quick and mu >= 5 and (info == "right" or delta < 2 ** (mu - 1) - 5):
                    # quick tier: of the long BCH codes only the low-rate ones (k small enough to enumerate); with long_bch also the
                    # high-rate ones whose dual is small enough for the MacWilliams route (n - k <= 20)
                    if not (long_bch and info == "left" and (mu == 5 or delta <= 7)):
                        continue
                add(Entry("BCH(mu=%d,delta=%d)/%s" % (mu, delta, info), "bch", (mu, delta), (lambda mu=mu, delta=delta, iset=iset: E.BCHCodeEncoder(mu, delta, information_set=iset)),
                          info=info, cyclic=True, gpoly="obj", component="BCHCodeEncoder"))
    # --- Golay
    for ext in (False, True):
        ng = 24 if ext else 23
        pmg = rng.sample(range(ng), 12)
        if pmg == sorted(pmg):
            pmg = pmg[::-1]
        for info, iset in [("left", "left"), ("right", "right"), ("permuted", pmg)] + _block_lists(ng, 12)[:1]:
            add(Entry("Golay(ext=%s)/%s" % (ext, info), "golay", (int(ext),), (lambda ext=ext, iset=iset: E.GolayCodeEncoder(extended=ext, information_set=iset)),
                      info=info, perfect=not ext, dexact=True, component="GolayCodeEncoder"))
    # --- Reed-Solomon style
    for mu in (2, 3, 4):
        for delta in ((3,) if mu == 2 else (3, 5)):
            for info in ("left", "right"):
                add(Entry("RS(mu=%d,delta=%d)/%s" % (mu, delta, info), "rs", (mu, delta), (lambda mu=mu, delta=delta, info=info: E.ReedSolomonCodeEncoder(mu, delta, information_set=info)),
                          info=info, component="ReedSolomonCodeEncoder", linear_syndrome=False))
    # --- LDPC from a user parity-check matrix (full rank and rank deficient)
    for idx, (r_, n) in enumerate([(3, 6), (4, 8), (3, 7), (5, 10)] if quick else [(2, 4), (3, 6), (4, 8), (3, 7), (5, 10), (6, 12), (4, 9), (8, 16)]):
        for deficient in (False, True):
            for _ in range(100):
                H = [[1 if rng.random() < 0.4 else 0 for _ in range(n)] for _ in range(r_)]
                if deficient and r_ >= 2:
                    # the dependent row is the last one or (every other size) the second one, so that the first n - k rows are not always a basis
                    if r_ < 3:
                        H[-1] = [a ^ b for a, b in zip(H[0], H[1])]
                    else:
                        dep = r_ - 1 if idx % 2 == 0 else 1
                        others = [i for i in range(r_) if i != dep][:2]
                        H[dep] = [a ^ b for a, b in zip(H[others[0]], H[others[1]])]
                rows = [sum(b << j for j, b in enumerate(row)) for row in H]
                rk = _rank(rows)
                if all(any(col) for col in zip(*H)) and (rk == r_ if not deficient else rk == r_ - 1) and rk < n:
                    break
            Ht = torch.tensor(H, dtype=torch.int64)
            add(Entry("LDPC(%dx%d%s)" % (r_, n, ",deficient" if deficient else ""), "ldpc", (r_, n, int(deficient)), (lambda Ht=Ht: E.LDPCCodeEncoder(check_matrix=Ht)),
                      component="LDPCCodeEncoder"))
    return cat


def _rank(rows):
    basis = {}
    for r in rows:
        while r:
            p = r & -r
            if p in basis:
                r ^= basis[p]
            else:
                basis[p] = r
                break
    return len(basis)


def dual_weight_distribution(rows, n, max_dim=20):
    """Weight distribution B[0..n] of the dual of the row space of `rows` (integers, bit j = position j), by enumeration of the
    dual's 2^(n - rank) words; [] when the dual is larger than 2^max_dim or n > 63."""
    import numpy as np
    if n > 63:
        return []
    # reduced row echelon form of the rows: pivots and the free positions give a basis of the null space
    piv = {}
    for r in rows:
        for p, b in piv.items():
            if (r >> p) & 1:
                r ^= b
        if r:
            p = (r & -r).bit_length() - 1
            for q in list(piv):
                if (piv[q] >> p) & 1:
                    piv[q] ^= r
            piv[p] = r
    free = [j for j in range(n) if j not in piv]
    if len(free) > max_dim:
        return []
    basis = []
    for f in free:
        v = 1 << f
        for p, b in piv.items():
            if (b >> f) & 1:
                v |= 1 << p
        basis.append(v)
    words = np.zeros(1, dtype=np.uint64)
    for v in basis:
        words = np.concatenate([words, words ^ np.uint64(v)])
    pc = np.zeros(len(words), dtype=np.int64)
    w = words.copy()
    for _ in range(8):
        pc += _PC8[(w & np.uint64(255)).astype(np.int64)]
        w >>= np.uint64(8)
    return [int(c) for c in np.bincount(pc, minlength=n + 1)]


def _pc8():
    import numpy as np
    return np.array([bin(i).count("1") for i in range(256)], dtype=np.int64)


_PC8 = _pc8()


def advertised_d(entry, enc):
    """(d, t) as the object advertises them; d = 0 / t = -1 when nothing is advertised."""
    d, t = 0, -1
    md = getattr(enc, "minimum_distance", None)
    try:
        if callable(md):
            d = int(md())
        elif md is not None:
            d = int(md)
    except Exception:
        d = 0
    if entry.family == "repetition":
        d = int(enc.repetition_factor)
    ecc = getattr(enc, "error_correction_capability", None)
    if ecc is not None:
        try:
            t = int(ecc)
        except Exception:
            t = -1
    if ecc is not None and entry.family in ("rs",):
        if d == 0:
            d = int(getattr(enc, "delta", 0) or 0)
    return d, t


def construct_event(entry, enc, tid, ml=False):
    n, k = int(enc.code_length), int(enc.code_dimension)
    G = enc.generator_matrix
    H = getattr(enc, "check_matrix", None)
    d, t = advertised_d(entry, enc)
    ev = {"ev": "Construct", "tid": tid, "name": entry.name, "n": n, "k": k,
          "G": [limbs(r, n) for r in mat_rows(G)] if G.shape[1] == n else [[-1]],
          "hasH": H is not None, "H": [limbs(r, n) for r in mat_rows(H)] if H is not None and H.shape[1] == n else [],
          "d": d, "t": t, "ml": bool(ml)}
    if H is not None and H.shape[1] != n:
        ev["H"] = [[-1] * nlimbs(n)]
    return ev


def advertise_event(entry, enc, tid, enum_k):
    n, k = int(enc.code_length), int(enc.code_dimension)
    d, t = advertised_d(entry, enc)
    g = entry.gpoly
    if g == "obj":
        g = int(enc.generator_poly.value)
    gp = [-1] if g is None else [(g >> j) & 1 for j in range(n + 1)]
    cyc = bool(entry.cyclic and entry.info in ("left", "right"))
    G = enc.generator_matrix
    dualB = []
    if G.shape[1] == n and k > enum_k:
        # sensor for the MacWilliams route: the weight distribution of the dual of the row space of the PUBLISHED generator matrix
        dualB = dual_weight_distribution([sum(int(b) << j for j, b in enumerate(r)) for r in (G.to(torch.int64) % 2).tolist()], n)
    return {"ev": "Advertise", "dualB": dualB, "dual_dim": (sum(dualB).bit_length() - 1 if dualB else -1), "tid": tid, "family": entry.family if entry.family not in ("cyclic", "cyclic_named", "linear", "systematic", "ldpc") else "other",
            "params": list(entry.params) if entry.family in ("hamming", "golay", "repetition", "spc", "rm", "bch", "rs") else [0],
            "rate6": int(round(float(enc.code_rate) * 1e6)), "d": d, "dexact": bool(entry.dexact and d > 0), "enum_k": enum_k,
            "cyclic": cyc, "gpoly": gp, "perfect": bool(entry.perfect), "t": t}
