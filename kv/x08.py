"""X08 (extended coverage, not a listed property) - FeedbackChannelModel follows the protocol of Feedback.tla.

MC : MC_Feedback (inputs {0, 1, 5, 96}, 0..4 iterations): 6n - 1 component calls, one record per iteration, the processor is fed the feedback
     stored by the previous iteration (after its channel), the encoder gets a state exactly from the second iteration on, each component
     consumes its predecessor's output, and the protocol terminates (liveness under weak fairness); the wrong design "stale" (processor fed
     the feedback before its channel) must be rejected (vacuity guard).
TV : a real FeedbackChannelModel built from arithmetic stub components (the specification's own functions) is run for every (input,
     iteration count); every component call (arguments, whether a state was passed, result) and the returned dictionary are logged and
     validated by Trace_Feedback, which recomputes every value that flows.  Extra positional / keyword arguments are passed along too.
"""
import torch

from . import tlc, tv

LEVEL = "model_checking"

M = 97
NOVAL = -1
CFG_MC = '''CONSTANTS Inputs = {0, 1, 5, 96}
MaxIter = 4
Design = "%s"
SPECIFICATION FairSpec
CHECK_DEADLOCK FALSE
INVARIANT CallCount
INVARIANT OneRecordPerIteration
INVARIANT ProcessorSeesStoredFeedback
INVARIANT EncoderState
INVARIANT Dataflow
PROPERTY Terminates
'''
CFG_TV = '''CONSTANTS Inputs = {0}
MaxIter = 0
Design = "code"
SPECIFICATION TraceSpec
INVARIANT TraceInvariants
POSTCONDITION AllConsumed
CHECK_DEADLOCK FALSE
'''


def ival(t):
    return int(round(float(t.reshape(-1)[0])))


def record(xv, n, tid, extra):
    """Run a real FeedbackChannelModel on the scalar input xv for n iterations; return the events."""
    from kaira.models.feedback_channel import FeedbackChannelModel
    evs = [{"ev": "Run", "tid": tid, "x": xv, "n": n}]
    seen_extra = []

    def log(comp, a, b, out):
        evs.append({"ev": "Call", "tid": tid, "comp": comp, "a": a, "b": b, "out": out})

    def T(v):
        return torch.tensor([float(v % M)])

    class Enc(torch.nn.Module):
        def forward(self, x, *args, state=None, **kw):
            seen_extra.append((args, tuple(sorted(kw))))
            s = NOVAL if state is None else ival(state)
            o = (3 * ival(x) + (0 if s == NOVAL else 5 * s + 1)) % M
            log("encoder", ival(x), s, o)
            return T(o)

    def unary(name, f):
        class U(torch.nn.Module):
            def forward(self, v, *args, **kw):
                seen_extra.append((args, tuple(sorted(kw))))
                o = f(ival(v)) % M
                log(name, ival(v), NOVAL, o)
                return T(o)
        return U()

    class Gen(torch.nn.Module):
        def forward(self, d, orig, *args, **kw):
            seen_extra.append((args, tuple(sorted(kw))))
            o = (ival(d) + (M - ival(orig) % M) + 7) % M
            log("feedback_generator", ival(d), ival(orig), o)
            return T(o)

    m = FeedbackChannelModel(encoder=Enc(), forward_channel=unary("forward_channel", lambda v: v + 1), decoder=unary("decoder", lambda v: 2 * v),
                             feedback_generator=Gen(), feedback_channel=unary("feedback_channel", lambda v: v + 11),
                             feedback_processor=unary("processor", lambda v: v * v + 1), max_iterations=n)
    x = torch.tensor([float(xv)])
    out = m(x, *extra[0], **extra[1])
    its = [[ival(r["encoded"]), ival(r["received"]), ival(r["decoded"]), ival(r["feedback"])] for r in out["iterations"]]
    evs.append({"ev": "Result", "tid": tid, "iterations": its, "history": [ival(v) for v in out["feedback_history"]],
                "has_final": "final_output" in out, "final": ival(out["final_output"]) if "final_output" in out else NOVAL,
                "extras_passed_along": all(e == (tuple(extra[0]), tuple(sorted(extra[1]))) for e in seen_extra)})
    return evs


def run(run):
    quick = run.tier == "quick"
    run.rule = "one run per (input, iteration count, extra-argument form); non-trivial = at least two iterations; distinct by (input, iterations, form)"
    g = tlc.run("MC_Feedback", CFG_MC % "stale", workers=4, timeout=600)
    if g.ok or "ProcessorSeesStoredFeedback" not in " ".join(g.violated):
        raise tlc.TLCFailure("vacuity guard: design 'stale' not rejected (%s)" % (g.violated,))
    run.extra["vacuity_guard"] = "design 'stale' (processor fed the feedback before its channel) violates ProcessorSeesStoredFeedback"
    r = tlc.run("MC_Feedback", CFG_MC % "code", workers=4, timeout=600)
    if not r.ok:
        raise tlc.TLCFailure("MC_Feedback: %s %s" % (r.errors, r.violated))
    run.add_tlc("MC_Feedback (safety + Terminates under weak fairness)", r)
    evs, tid = [], 0
    forms = [((), {}), ((torch.tensor(2.0),), {}), ((), {"snr": 3.0})]
    for xv in ([0, 1, 5, 42, 96] if quick else list(range(0, 97, 4))):
        for n in range(0, 6 if quick else 9):
            for fi, extra in enumerate(forms):
                tid += 1
                evs += record(xv, n, tid, extra)
                run.case((xv, n, fi), nontrivial=n >= 2)
    run.log("%d events from %d runs" % (len(evs), tid))
    mism = tv.validate(run, "Trace_Feedback", evs, name="TV X08", cfg=CFG_TV, timeout=900)
    seen = set()
    for (t, line, clause) in mism:
        if clause in seen:
            continue
        seen.add(clause)
        run.violate("FeedbackChannelModel", clause, {"event": evs[line - 1]["ev"]}, evs[line - 1], "event rejected by Trace_Feedback clause %s" % clause)
    bad = [e for e in evs if e["ev"] == "Result" and not e["extras_passed_along"]]
    if bad:
        run.violate("FeedbackChannelModel", "extra_arguments_passed_to_every_component", {"event": "Result"}, bad[0], "a component was called without the run's extra arguments")
    run.sample(evs[0])
    run.sample(next(e for e in evs if e["ev"] == "Result" and len(e["iterations"]) >= 2))
    if not mism:
        def corrupt(ev2):
            i = next(i for i, e in enumerate(ev2) if e["ev"] == "Call" and e["comp"] == "processor")
            ev2[i]["a"] = (ev2[i]["a"] + 1) % M
            return i + 1
        ok, msg = tv.selftest_binding("Trace_Feedback", evs[:200], corrupt, "component_receives_the_previous_components_output", cfg=CFG_TV)
        if not ok:
            raise tlc.TLCFailure("binding self-test failed: " + msg)
        run.extra["binding_selftest"] = "changing the logged argument of one processor call is rejected at that line"
    run.assumptions += ["components are arithmetic stubs on one-element tensors (the specification's own functions modulo 97), so every value that flows is determined"]
