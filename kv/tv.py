"""Trace validation: events recorded from the implementation are judged by TLC.

validate(run, module, events) writes the events as ndjson, runs spec/<module>.tla (which reads the
file through IOEnv.TRACE_FILE), and returns the MISMATCH verdicts the specification printed.
A trace that is not fully consumed and produced no MISMATCH is a machinery failure.
"""
import json
import os
import tempfile

from . import tlc

CFG = """SPECIFICATION Spec
POSTCONDITION AllConsumed
CHECK_DEADLOCK FALSE
"""


def validate(run, module, events, name=None, timeout=900, cfg=CFG, env=None, dfs=False, heap="8g", count_trace=True, _ret=False):
    if not events:
        return []
    fd, path = tempfile.mkstemp(prefix="kvtrace_", suffix=".ndjson")
    try:
        with os.fdopen(fd, "w") as f:
            for e in events:
                f.write(json.dumps(e, separators=(",", ":")))
                f.write("\n")
        e2 = {"TRACE_FILE": path}
        if env:
            e2.update(env)
        r = tlc.run(module, cfg, env=e2, workers=1, timeout=timeout, dfs=dfs, heap=heap)
    finally:
        try:
            os.unlink(path)
        except OSError:
            pass
    mism = [(m[1], m[2], m[3]) + tuple(m[4:]) for m in r.tuples("MISMATCH")]
    if not r.ok:
        # the only acceptable failure is none: the trace specs are total, so any TLC error is machinery
        raise tlc.TLCFailure("trace validation %s failed in TLC (not a verdict):\n%s" % (
            name or module, "\n".join(r.errors[:6]) + "\n" + r.stdout[-3000:]))
    if r.distinct != len(events) + 1:
        raise tlc.TLCFailure("trace %s: consumed %d of %d events" % (name or module, r.distinct - 1, len(events)))
    if run is not None:
        run.add_tlc(name or module, r, kind="trace", traces=(1 if count_trace else 0))
        run.last_prints = r.prints
    if _ret:
        return mism, r
    return mism


def validate_sharded(run, module, events, is_header, name=None, max_events=25000, jobs=8, timeout=3000, cfg=CFG, env=None, heap="4g", cost=None):
    """Same verdicts as validate(), computed by several TLC processes in parallel.

    The trace is cut at header events (is_header(e): an event that (re)establishes all state the following events depend on);
    a shard longer than max_events is cut further and each piece starts with a copy of its header. Every piece is a complete
    trace for the specification, every event is judged exactly once (repeated headers are judged again, harmlessly), and the line
    numbers of the verdicts are mapped back to positions in `events`.
    """
    from concurrent.futures import ThreadPoolExecutor
    if not events:
        return []
    if os.environ.get("KV_DUMP_TRACE"):          # debugging aid: keep the recorded trace
        with open(os.path.join(os.environ["KV_DUMP_TRACE"], (name or module).replace(" ", "_") + ".ndjson"), "w") as f:
            for e in events:
                f.write(json.dumps(e, separators=(",", ":")) + "\n")
    cost = cost or (lambda e: 1)             # relative evaluation cost of an event; max_events bounds the cost of a piece
    pieces, cur, hdr, w = [], [], None, 0    # piece = (list of global indices (0-based), cost)
    for i, e in enumerate(events):
        if is_header(e):
            if cur:
                pieces.append((cur, w))
            cur, hdr, w = [i], i, cost(e)
        else:
            if w >= max_events:
                pieces.append((cur, w))
                cur, w = ([hdr], cost(events[hdr])) if hdr is not None else ([], 0)
            cur.append(i)
            w += cost(e)
    if cur:
        pieces.append((cur, w))
    # pack small pieces together (fewer JVM starts), keeping order
    packed, acc, aw = [], [], 0
    for pc, pw in pieces:
        if acc and aw + pw > max_events:
            packed.append(acc)
            acc, aw = [], 0
        acc = acc + pc
        aw += pw
    if acc:
        packed.append(acc)

    def one(idx):
        sub = [events[i] for i in idx]
        m = validate(None, module, sub, name=name, timeout=timeout, cfg=cfg, env=env, heap=heap, _ret=True)
        return idx, m
    import time
    out, prints = [], []
    agg = {"distinct": 0, "generated": 0, "depth": 0}
    t0 = time.time()
    with ThreadPoolExecutor(max_workers=jobs) as ex:
        for idx, (mism, r) in ex.map(one, packed):
            for m in mism:
                out.append((m[0], idx[m[1] - 1] + 1) + tuple(m[2:]))
            prints.extend(r.prints)
            agg["distinct"] += r.distinct
            agg["generated"] += r.generated
            agg["depth"] = max(agg["depth"], r.depth or 0)
    if run is not None:
        run.states += agg["distinct"]
        run.transitions += agg["generated"]
        run.traces += 1
        run.mc_runs.append({"name": name or module, "kind": "trace", "distinct_states": agg["distinct"], "states_generated": agg["generated"],
                            "depth": agg["depth"], "wall_s": round(time.time() - t0, 2), "pieces": len(packed)})
        run.last_prints = prints
        run.extra.setdefault("sharded_validation", {})[name or module] = {"pieces": len(packed), "events": len(events)}
    out.sort(key=lambda m: m[1])
    return out


def selftest_binding(module, events, corrupt, expect_clause=None, cfg=CFG, env=None):
    """Binding demonstration: the accepted trace, with one field corrupted, must be rejected at that line."""
    good = validate(None, module, events, cfg=cfg, env=env)
    if good:
        return False, "pristine trace rejected: %r" % (good[:3],)
    ev2 = [dict(e) for e in events]
    line = corrupt(ev2)
    bad = validate(None, module, ev2, cfg=cfg, env=env)
    if not bad:
        return False, "corrupted trace accepted"
    if line is not None and all(m[1] != line for m in bad):
        return False, "mismatch reported at wrong line: %r (expected line %d)" % (bad[:3], line)
    if expect_clause and all(m[2] != expect_clause for m in bad):
        return False, "mismatch clause %r not reported: %r" % (expect_clause, bad[:3])
    return True, "ok"
