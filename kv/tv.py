"""Trace validation: events recorded from the implementation are judged by TLC.

validate(run, module, events) writes the events as ndjson, runs spec/<module>.tla (which reads the
file through IOEnv.TRACE_FILE), and returns the MISMATCH verdicts the specification printed.
A trace that is not fully consumed and produced no MISMATCH is a machinery failure.
"""
import json
import os
import tempfile

from . import tlc

CFG = """SPECIFICATION Spec
POSTCONDITION AllConsumed
CHECK_DEADLOCK FALSE
"""


def validate(run, module, events, name=None, timeout=900, cfg=CFG, env=None, dfs=False, heap="8g", count_trace=True):
    if not events:
        return []
    fd, path = tempfile.mkstemp(prefix="kvtrace_", suffix=".ndjson")
    try:
        with os.fdopen(fd, "w") as f:
            for e in events:
                f.write(json.dumps(e, separators=(",", ":")))
                f.write("\n")
        e2 = {"TRACE_FILE": path}
        if env:
            e2.update(env)
        r = tlc.run(module, cfg, env=e2, workers=1, timeout=timeout, dfs=dfs, heap=heap)
    finally:
        try:
            os.unlink(path)
        except OSError:
            pass
    mism = [(m[1], m[2], m[3]) + tuple(m[4:]) for m in r.tuples("MISMATCH")]
    if not r.ok:
        # the only acceptable failure is none: the trace specs are total, so any TLC error is machinery
        raise tlc.TLCFailure("trace validation %s failed in TLC (not a verdict):\n%s" % (
            name or module, "\n".join(r.errors[:6]) + "\n" + r.stdout[-3000:]))
    if r.distinct != len(events) + 1:
        raise tlc.TLCFailure("trace %s: consumed %d of %d events" % (name or module, r.distinct - 1, len(events)))
    if run is not None:
        run.add_tlc(name or module, r, kind="trace", traces=(1 if count_trace else 0))
        run.last_prints = r.prints
    return mism


def selftest_binding(module, events, corrupt, expect_clause=None, cfg=CFG, env=None):
    """Binding demonstration: the accepted trace, with one field corrupted, must be rejected at that line."""
    good = validate(None, module, events, cfg=cfg, env=env)
    if good:
        return False, "pristine trace rejected: %r" % (good[:3],)
    ev2 = [dict(e) for e in events]
    line = corrupt(ev2)
    bad = validate(None, module, ev2, cfg=cfg, env=env)
    if not bad:
        return False, "corrupted trace accepted"
    if line is not None and all(m[1] != line for m in bad):
        return False, "mismatch reported at wrong line: %r (expected line %d)" % (bad[:3], line)
    if expect_clause and all(m[2] != expect_clause for m in bad):
        return False, "mismatch clause %r not reported: %r" % (expect_clause, bad[:3])
    return True, "ok"
