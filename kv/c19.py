"""C19 - DeepJSCC pipelines are differentiable end to end and keep their shape contract.

MC  : MC_ShapeAlgebra - conv / transposed-conv size arithmetic: for every image size 8..96 the bundled stride-2/stride-2 pairs restore exactly the
      sizes divisible by 4 (the admissible set is derived), the latent is h/4, reachability operator sanity.
TV  : Shape events - forward hooks record every (transposed) convolution's kernel/stride/padding/output_padding and in/out size for the bundled
      architectures x image sizes {16,32,48,64} (+ inadmissible sizes) x batch {1,2,5}; TLC checks each layer against the size law, the end-to-end
      shape, the documented bandwidth ratio and range. Graph events - the autograd graph of a full DeepJSCC pipeline loss is exported (nodes = grad_fn
      objects) and TLC decides reachability of every encoder parameter and of the constraint / channel outputs from the loss. Grad events (sensor) -
      float64 directional derivatives vs central finite differences under a frozen RNG for every analog channel and power constraint, real and complex.
"""
import math
import random

import torch
from .core import sint

from . import tlc, tv

LEVEL = "other"


def conv_hooks(mods, rec, sequential):
    hs = []
    for m in mods:
        for sub in m.modules():
            if isinstance(sub, (torch.nn.Conv2d, torch.nn.ConvTranspose2d)):
                def hook(mod, inp, out, sub=sub):
                    kind = "tconv" if isinstance(mod, torch.nn.ConvTranspose2d) else "conv"
                    op = mod.output_padding[0] if kind == "tconv" else 0
                    rec.append([kind, mod.kernel_size[0], mod.stride[0], mod.padding[0], op, int(inp[0].shape[-2]), int(out.shape[-2]), 0 if sequential else 1])
                hs.append(sub.register_forward_hook(hook))
    return hs


def architectures():
    from kaira.models.image.bourtsoulatze2019_deepjscc import Bourtsoulatze2019DeepJSCCDecoder as BD
    from kaira.models.image.bourtsoulatze2019_deepjscc import Bourtsoulatze2019DeepJSCCEncoder as BE
    from kaira.models.image.kurka2020_deepjscc_feedback import DeepJSCCFeedbackDecoder as KD
    from kaira.models.image.kurka2020_deepjscc_feedback import DeepJSCCFeedbackEncoder as KE
    from kaira.models.image.tung2022_deepjscc_q import Tung2022DeepJSCCQ2Decoder as T2D
    from kaira.models.image.tung2022_deepjscc_q import Tung2022DeepJSCCQ2Encoder as T2E
    from kaira.models.image.tung2022_deepjscc_q import Tung2022DeepJSCCQDecoder as TD
    from kaira.models.image.tung2022_deepjscc_q import Tung2022DeepJSCCQEncoder as TE
    return [("Bourtsoulatze2019(c=8)", lambda: (BE(8), BD(8)), False, True, (8, 48), 4, True),
            ("Bourtsoulatze2019(c=16)", lambda: (BE(16), BD(16)), False, True, (16, 48), 4, True),
            ("Kurka2020(conv_depth=256)", lambda: (KE(256), KD(3)), False, True, (256, 48), 4, True),
            ("Tung2022Q(N=16,M=8)", lambda: (TE(16, 8), TD(16, 8)), False, False, (8, 768), 16, False),
            ("Tung2022Q2(N=16,M=8)", lambda: (T2E(16, 8), T2D(16, 8)), True, False, (8, 48), 4, False)]


def grad_cases():
    from kaira import channels as C
    from kaira import constraints as K
    cases = []
    for cplx in (False, True):
        cases += [("AWGNChannel(power)", lambda: C.AWGNChannel(avg_noise_power=0.3), cplx, (3, 12)), ("AWGNChannel(snr)", lambda: C.AWGNChannel(snr_db=7.0), cplx, (3, 12)),
                  ("LaplacianChannel(power)", lambda: C.LaplacianChannel(avg_noise_power=0.2), cplx, (2, 10)), ("LaplacianChannel(snr)", lambda: C.LaplacianChannel(snr_db=5.0), cplx, (2, 10)),
                  ("FlatFadingChannel(rayleigh,snr)", lambda: C.RayleighFadingChannel(coherence_time=3, snr_db=10.0), cplx, (2, 9)),
                  ("FlatFadingChannel(rician,power)", lambda: C.RicianFadingChannel(k_factor=2.0, coherence_time=4, avg_noise_power=0.1), cplx, (9,)),
                  ("NonlinearChannel(tanh,snr)", lambda: C.NonlinearChannel(torch.tanh, add_noise=True, snr_db=8.0, complex_mode="cartesian"), cplx, (2, 8)),
                  ("TotalPowerConstraint", lambda: K.TotalPowerConstraint(2.0), cplx, (3, 12)), ("TotalPowerConstraint", lambda: K.TotalPowerConstraint(2.0), cplx, (12,)),
                  ("AveragePowerConstraint", lambda: K.AveragePowerConstraint(0.7), cplx, (3, 12)), ("AveragePowerConstraint", lambda: K.AveragePowerConstraint(0.7), cplx, (1, 12)),
                  ("AveragePowerConstraint", lambda: K.AveragePowerConstraint(0.7), cplx, (2, 2, 3, 4)),
                  ("PAPRConstraint", lambda: K.PAPRConstraint(max_papr=2.5), cplx, (2, 16)),
                  # tight limits: the clipping loop runs into its late, more aggressive iterations
                  ("PAPRConstraint(tight)", lambda: K.PAPRConstraint(max_papr=1.2), cplx, (2, 16)), ("PAPRConstraint(tight)", lambda: K.PAPRConstraint(max_papr=1.1), cplx, (16,)),
                  ("PAPRConstraint(tight)", lambda: K.PAPRConstraint(max_papr=1.05), cplx, (3, 10)),
                  ("PerAntennaPowerConstraint", lambda: K.PerAntennaPowerConstraint(uniform_power=1.5), cplx, (2, 3, 8)),
                  # a budget tensor of default (single) precision next to the double-precision signal of this check
                  ("PerAntennaPowerConstraint(float32 budget)", lambda: K.PerAntennaPowerConstraint(power_budget=torch.tensor([0.5, 1.0, 2.0])), cplx, (2, 3, 8)),
                  ("PerAntennaPowerConstraint(float64 budget)", lambda: K.PerAntennaPowerConstraint(power_budget=torch.tensor([0.5, 1.0, 2.0], dtype=torch.float64)), cplx, (2, 3, 8))]
    cases.append(("PhaseNoiseChannel", lambda: C.PhaseNoiseChannel(phase_noise_std=0.2), True, (2, 10)))
    # the call-time keywords a DeepJSCC pipeline hands to every stage (model(image, snr=10.0), csi=...): whatever a channel makes of them,
    # the result stays differentiable with the right gradient
    for cplx in (False, True):
        cases += [("AWGNChannel(snr; call snr=3.0)", lambda: _WithCallKw(C.AWGNChannel(snr_db=7.0), snr=3.0), cplx, (3, 12)),
                  ("AWGNChannel(power; call snr=tensor)", lambda: _WithCallKw(C.AWGNChannel(avg_noise_power=0.3), snr=torch.tensor([3.0])), cplx, (2, 10)),
                  ("LaplacianChannel(snr; call snr=12)", lambda: _WithCallKw(C.LaplacianChannel(snr_db=5.0), snr=12), cplx, (2, 10)),
                  ("FlatFadingChannel(rayleigh,snr; call snr=6.0)", lambda: _WithCallKw(C.RayleighFadingChannel(coherence_time=3, snr_db=10.0), snr=6.0), cplx, (2, 9))]
    # the documented helper routes for applying constraints: apply_constraint_chain(list, x) and combine_constraints(list)(x)
    for cplx in (False, True):
        cases += [("apply_constraint_chain(TotalPower,PAPR)", lambda: _Chain([K.TotalPowerConstraint(2.0), K.PAPRConstraint(max_papr=2.5)], "chain"), cplx, (2, 16)),
                  ("apply_constraint_chain(AveragePower)", lambda: _Chain([K.AveragePowerConstraint(0.7)], "chain"), cplx, (3, 12)),
                  ("combine_constraints(PAPR,AveragePower)", lambda: _Chain([K.PAPRConstraint(max_papr=2.5), K.AveragePowerConstraint(0.7)], "combine"), cplx, (2, 16))]
    # one channel object applied twice before the backward pass (successive interference cancellation, feedback rounds, shared user channels)
    for cplx in (False, True):
        cases += [("AWGNChannel(snr) used twice", lambda: _Twice(C.AWGNChannel(snr_db=7.0)), cplx, (3, 12)),
                  ("AWGNChannel(power) used twice", lambda: _Twice(C.AWGNChannel(avg_noise_power=0.3)), cplx, (2, 10)),
                  ("LaplacianChannel(snr) used twice", lambda: _Twice(C.LaplacianChannel(snr_db=5.0)), cplx, (2, 10)),
                  ("FlatFadingChannel(rayleigh,snr) used twice", lambda: _Twice(C.RayleighFadingChannel(coherence_time=3, snr_db=10.0)), cplx, (2, 9))]
    return cases


class _Twice(torch.nn.Module):
    def __init__(self, mod):
        super().__init__()
        self.mod = mod

    def forward(self, x):
        return self.mod(x) + 0.5 * self.mod(0.7 * x)


class _Chain(torch.nn.Module):
    def __init__(self, parts, route):
        super().__init__()
        from kaira.constraints import utils as U
        self.parts = torch.nn.ModuleList(parts)
        self.route = route
        self.comb = U.combine_constraints(parts) if route == "combine" else None
        self.U = U

    def forward(self, x):
        return self.comb(x) if self.comb is not None else self.U.apply_constraint_chain(list(self.parts), x)


class _WithCallKw(torch.nn.Module):
    """A stage called the way a pipeline calls it: with the run's extra keyword arguments."""

    def __init__(self, mod, **kw):
        super().__init__()
        self.mod, self.kw = mod, kw

    def forward(self, x):
        return self.mod(x, **self.kw)


def grad_event(name, mk, cplx, shape, seed):
    g = torch.Generator().manual_seed(seed)
    dt = torch.float64
    if cplx:
        x0 = torch.complex(torch.randn(shape, generator=g, dtype=dt), torch.randn(shape, generator=g, dtype=dt))
        d = torch.complex(torch.randn(shape, generator=g, dtype=dt), torch.randn(shape, generator=g, dtype=dt))
    else:
        x0 = torch.randn(shape, generator=g, dtype=dt)
        d = torch.randn(shape, generator=g, dtype=dt)
    w = torch.rand(shape, generator=g, dtype=dt) + 0.5
    mod = mk()

    def L(x):
        torch.manual_seed(seed + 17)          # frozen noise realisation
        y = mod(x)
        return ((y.abs() ** 2) * w).sum() + (y.real * w).sum()
    ev = {"ev": "Grad", "raised": False, "relerr_ppm": 0, "has_grad": False, "error": ""}
    try:
        x = x0.clone().requires_grad_(True)
        loss = L(x)
        loss.backward()
        gr = x.grad
        ev["has_grad"] = gr is not None and bool(torch.isfinite(torch.view_as_real(gr) if gr.is_complex() else gr).all()) and float(gr.abs().sum()) > 0
        if gr is not None:
            ana = float((gr.conj() * d).real.sum()) if cplx else float((gr * d).sum())
            best = None
            for eps in (1e-2, 1e-3, 1e-4):          # some paths compute the noise power in float32: small steps would only measure its rounding
                fd = float((L(x0 + eps * d) - L(x0 - eps * d)) / (2 * eps))
                rel = abs(ana - fd) / max(abs(ana), abs(fd), 1e-12)
                best = rel if best is None else min(best, rel)
            ev["relerr_ppm"] = sint(min(best, 1.0) * 1e6)
            # constraints are computed in the signal's own (double) precision: there the derivative must also agree at a fine step, which a
            # single-precision round trip inside the computation (a staircase at the 1e-7 scale) does not survive
            if "Constraint" in name and "PAPR" not in name and "chain" not in name and "combine" not in name:
                e6 = 1e-6
                fd6 = float((L(x0 + e6 * d) - L(x0 - e6 * d)) / (2 * e6))
                ev["relerr_ppm"] = max(ev["relerr_ppm"], sint(min(abs(ana - fd6) / max(abs(ana), abs(fd6), 1e-12), 1.0) * 1e6))
    except Exception as ex:
        ev["raised"] = True
        ev["error"] = repr(ex)[:150]
    return ev


def graph_event(name, enc, dec, needs_csi, hw):
    from kaira.channels import AWGNChannel
    from kaira.constraints import AveragePowerConstraint
    from kaira.models.deepjscc import DeepJSCCModel
    con, ch = AveragePowerConstraint(1.0), AWGNChannel(snr_db=10.0)
    model = DeepJSCCModel(encoder=enc, constraint=con, channel=ch, decoder=dec)
    cap = {}
    hooks = [con.register_forward_hook(lambda m, i, o: cap.__setitem__("con", o)), ch.register_forward_hook(lambda m, i, o: cap.__setitem__("ch", o))]
    x = torch.rand(2, 3, hw, hw)
    torch.manual_seed(5)
    y = model(x, torch.ones(2, 1)) if needs_csi else model(x)
    loss = ((y - x) ** 2).mean()
    ids, edges = {}, []

    def nid(fn):
        if fn not in ids:
            ids[fn] = len(ids) + 1
        return ids[fn]
    stack, seen = [loss.grad_fn], set()
    acc = {}
    while stack:
        fn = stack.pop()
        if fn in seen or fn is None:
            continue
        seen.add(fn)
        if hasattr(fn, "variable"):
            acc[id(fn.variable)] = nid(fn)
        for nxt, _ in fn.next_functions:
            if nxt is not None:
                edges.append([nid(fn), nid(nxt)])
                stack.append(nxt)
    loss.backward()
    eparams = list(enc.parameters())
    params = [acc.get(id(p), 0) for p in eparams]
    for h in hooks:
        h.remove()
    return {"ev": "Graph", "root": nid(loss.grad_fn), "edges": edges, "params": params, "via": [ids.get(cap["con"].grad_fn, 0), ids.get(cap["ch"].grad_fn, 0)],
            "all_finite": all(p.grad is not None and bool(torch.isfinite(p.grad).all()) for p in eparams),
            "all_nonzero": all(p.grad is not None and float(p.grad.abs().sum()) > 0 for p in eparams), "nodes": len(ids)}


def run(run):
    rng = random.Random(run.seed)
    torch.manual_seed(run.seed)
    torch.set_num_threads(8)
    quick = run.tier == "quick"
    run.rule = ("(architecture, image size, batch size) shape cases; pipeline autograd graphs; (channel / constraint, real/complex, shape, seed) gradient cases; "
                "non-trivial = every case; distinct by configuration")
    r = tlc.run("MC_ShapeAlgebra", "SPECIFICATION Spec\nCHECK_DEADLOCK FALSE\nINVARIANT AdmissibleIffMultipleOf4\nINVARIANT LatentIsQuarter\nINVARIANT SameConvPreserves\nINVARIANT ReachOK\n", workers=4, timeout=600)
    if not r.ok:
        raise tlc.TLCFailure("MC_ShapeAlgebra: %s %s" % (r.errors, r.violated))
    run.add_tlc("MC_ShapeAlgebra", r)
    evs, meta = [], []
    tid = 0

    def add(e, comp, cfg):
        nonlocal tid
        tid += 1
        e["tid"] = tid
        evs.append(e)
        meta.append((comp, cfg))
    for (aname, mk, csi, sequential, ratio, mult, ranged) in architectures():
        enc, dec = mk()
        enc.eval()
        dec.eval()
        sizes = [16, 32, 48, 64] + ([20, 30] if not quick or aname.startswith("Bourt") else [])
        for hw in sizes:
            for bs in ((1, 2, 5) if (not quick or hw <= 32) else (2,)):
                if aname.startswith("Kurka") and (hw > 32 and bs > 1):
                    continue
                rec = []
                hooks = conv_hooks([enc, dec], rec, sequential)
                x = torch.rand(bs, 3, hw, hw)
                cfg = {"architecture": aname, "size": hw, "batch": bs}
                adm = hw % mult == 0
                e = {"ev": "Shape", "raised": False, "admissible": adm, "layers": [], "in_shape": [3, hw, hw], "out_shape": [], "latent_num": 0, "latent_den": 1,
                     "ratio_num": ratio[0], "ratio_den": ratio[1], "in_range": True, "batch_in": bs, "batch_out": bs}
                try:
                    with torch.no_grad():
                        c = torch.ones(bs, 1)
                        z = enc(x, c) if csi else enc(x)
                        y = dec(z, c) if csi else dec(z)
                    e["layers"] = rec
                    e["out_shape"] = list(y.shape[1:])
                    e["batch_out"] = int(y.shape[0])
                    e["latent_num"] = int(z[0].numel())
                    e["latent_den"] = 3 * hw * hw
                    if not adm:
                        e["latent_num"], e["latent_den"] = ratio      # the ratio is documented for admissible sizes only
                    e["in_range"] = (not ranged) or bool((y >= 0).all() and (y <= 1).all())
                except Exception as ex:
                    e["raised"] = True
                    e["error"] = repr(ex)[:120]
                for h in hooks:
                    h.remove()
                add(e, aname.split("(")[0], cfg)
                run.case(("shape", aname, hw, bs), nontrivial=True)
        try:
            ge = graph_event(aname, enc.train(), dec.train(), csi, 16)
            # a parameter may get an exactly zero gradient from dead ReLUs of one random initialisation (reduced widths): only a
            # parameter that never receives gradient over several initialisations counts as vanishing
            if not ge["all_nonzero"]:
                nz = None
                for rep in range(3):
                    torch.manual_seed(run.seed + 101 + rep)
                    e2, d2 = mk()
                    graph_event(aname, e2.train(), d2.train(), csi, 16)
                    flags = [p.grad is not None and float(p.grad.abs().sum()) > 0 for p in e2.parameters()]
                    nz = flags if nz is None else [a or b for a, b in zip(nz, flags)]
                ge["all_nonzero"] = all(nz)
            add(ge, aname.split("(")[0], {"architecture": aname, "case": "gradient_reachability"})
            run.case(("graph", aname), nontrivial=True)
            # the same reachability question for a larger image (a size-dependent shortcut - checkpointing, tiling - may cut a branch out of the graph)
            if not aname.startswith("Kurka"):
                for ghw in ((48,) if quick else (48, 64)):
                    torch.manual_seed(run.seed + 7)
                    e3, d3 = mk()
                    ge3 = graph_event(aname, e3.train(), d3.train(), csi, ghw)
                    if not ge3["all_nonzero"]:
                        ge3["all_nonzero"] = all(p.grad is not None for p in e3.parameters())      # exact zeros from dead units are judged at size 16 above
                    add(ge3, aname.split("(")[0], {"architecture": aname, "case": "gradient_reachability", "size": ghw})
                    run.case(("graph", aname, ghw), nontrivial=True)
        except Exception as ex:
            run.violate(aname.split("(")[0], "pipeline_backward_raised", {"architecture": aname}, {"error": repr(ex)[:200]})
    from kaira.utils import calculate_num_filters_factor_image
    for layers in (1, 2, 3, 4):
        for (rn, rd) in ((1, 6), (1, 12), (1, 3), (1, 48), (1, 4), (5, 24), (1, 7)):
            for channels in (1, 3):
                for cplx in (False, True):
                    num = channels * 4 ** layers * rn * (2 if cplx else 1)
                    e = {"ev": "Filters", "layers": layers, "rn": rn, "rd": rd, "channels": channels, "cplx": cplx, "c": 0, "raised": False, "integral": num % rd == 0}
                    if not e["integral"]:
                        continue
                    try:
                        e["c"] = int(calculate_num_filters_factor_image(layers, rn / rd, channels=channels, is_complex_transmission=cplx))
                    except Exception as ex:
                        e["raised"] = True
                    add(e, "calculate_num_filters_factor_image", {"layers": layers, "ratio": "%d/%d" % (rn, rd), "channels": channels, "complex": cplx})
                    run.case(("filters", layers, rn, rd, channels, cplx), nontrivial=True)
    for (gname, mk, cplx, shape) in grad_cases():
        for rep in range(2 if quick else 6):
            ge = grad_event(gname, mk, cplx, shape, run.seed * 100 + rep * 7 + len(shape))
            if "PAPR" in gname and not ge["raised"] and ge["relerr_ppm"] > 2000:
                # the PAPR loop switches its iteration count and its clipped set discretely with the input: a base point may sit next to such
                # a kink, where finite differences and the derivative legitimately differ (the property speaks of inputs away from the kinks).
                # The case is judged on the best of this point and two more independent ones - a wrong gradient is wrong at all of them.
                for extra in (1, 2):
                    g2 = grad_event(gname, mk, cplx, shape, run.seed * 100 + rep * 7 + len(shape) + 1000 * extra)
                    if not g2["raised"] and g2["relerr_ppm"] < ge["relerr_ppm"]:
                        ge = g2
            add(ge, gname.split("(")[0], {"component": gname, "complex": cplx, "ndim": len(shape), "batch": shape[0] if len(shape) > 1 else 0})
            run.case(("grad", gname, cplx, shape, rep), nontrivial=True)
    run.log("%d events" % len(evs))
    mism = tv.validate(run, "Trace_DeepJSCC", evs, name="TV C19", timeout=1800)
    seen = set()
    for (t, line, clause) in mism:
        comp, cfg = meta[line - 1]
        key = (comp, clause, cfg.get("complex"), cfg.get("ndim"), cfg.get("size"))
        if key in seen:
            continue
        seen.add(key)
        e = evs[line - 1]
        run.violate(comp, clause, cfg, {k: (v if not isinstance(v, list) else v[:12]) for k, v in e.items()}, "event rejected by Trace_DeepJSCC clause %s" % clause)
    run.sample({"config": meta[0][1], "event": {k: (v if not isinstance(v, list) else v[:10]) for k, v in evs[0].items()}})
    ge = next(e for e in evs if e["ev"] == "Grad")
    run.sample(ge)
    gg = next(e for e in evs if e["ev"] == "Graph")
    run.sample({"graph_nodes": gg["nodes"], "edges": len(gg["edges"]), "encoder_parameters": len(gg["params"])})
    run.extra["explanation"] = ("decided by TLC: the shape contract layer by layer (ShapeAlgebra) and reachability of every encoder parameter from the loss in the exported autograd "
                                "graph. Agreement of autograd with finite differences is analysis, not decidable by TLC: the harness measures the relative deviation of float64 directional "
                                "derivatives under a frozen RNG and TLC only applies the 0.2 % threshold (sensor).")
    if not mism and not run.only:
        def corrupt(ev2):
            i = next(i for i, e in enumerate(ev2) if e["ev"] == "Shape" and not e["raised"] and e["layers"])
            ev2[i]["layers"] = [list(x) for x in ev2[i]["layers"]]
            ev2[i]["layers"][1][6] += 1
            return i + 1
        ok, msg = tv.selftest_binding("Trace_DeepJSCC", evs[:6], corrupt, "every_layer_follows_the_size_law")
        if not ok:
            raise tlc.TLCFailure("binding self-test failed: " + msg)
        run.extra["binding_selftest"] = "changing one recorded layer output size is rejected at that line"
